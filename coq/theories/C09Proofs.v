(* C09Proofs.v — lemmas behind props/C09.v *)
From SV Require Import Base Json MD5 Canon FS Ws WsLemmas Cache CacheLemmas Repair CorrC01 CorrC08 C01Proofs C08Proofs.

Local Arguments calc_id : simpl never.

Section P.
  Variable frepr : fl -> str.
  Variable loads_s : list N -> option json.
  Variable loads_b : list N -> dec.

  Notation cid := (cid frepr).
  Notation sp_from_ws := (sp_from_ws frepr loads_s).
  Notation get_statepoint := (get_statepoint frepr loads_s).
  Notation sp_load := (sp_load frepr loads_b).
  Notation sp_load_view := (sp_load_view frepr loads_b).
  Notation jinit := (jinit frepr loads_b).
  Notation open_sp_by_id := (open_sp_by_id frepr loads_b).
  Notation valid := (valid frepr loads_s).
  Notation check_ids := (check_ids frepr loads_s).
  Notation check_in := (check_in frepr loads_s).
  Notation check := (check frepr loads_s).
  Notation repair_loop := (repair_loop frepr loads_s loads_b).
  Notation relocate := (relocate).
  Notation reinit := (reinit frepr loads_b).
  Notation resolve_id := (resolve_id).
  Notation repair_in := (repair_in frepr loads_s loads_b).
  Notation sound := (sound frepr).
  Notation Inv := (Inv frepr).

  (* ================================================================ A. check() is exact *)
  Lemma sp_from_ws_valid_iff : forall f i, isdir f (jdir i) = true ->
    (valid f i = true -> exists v, sp_from_ws f true i = Ok v /\ cid v = i) /\
    (valid f i = false -> sp_from_ws f true i = Err EJobsCorrupted).
  Proof.
    intros f i Hd. unfold Repair.valid, Cache.sp_from_ws. rewrite Hd.
    destruct (get f (spf i)) as [[c|]|]; try (split; [discriminate|reflexivity]).
    destruct (loads_s (c_bytes c)) as [v|]; [|split; [discriminate|reflexivity]].
    simpl. destruct (str_eqb (Cache.cid frepr v) i) eqn:E; simpl.
    - split; [|discriminate]. intros _. exists v. split; auto. apply str_eqb_eq. exact E.
    - split; [discriminate|reflexivity].
  Qed.

  Lemma check_ids_exact : forall f ids, (forall i, In i ids -> isdir f (jdir i) = true) ->
    check_ids f ids = Ok (filter (fun i => negb (valid f i)) ids).
  Proof.
    induction ids as [|i r IH]; intro H; simpl; auto.
    destruct (sp_from_ws_valid_iff f i (H i (or_introl eq_refl))) as [H1 H2].
    rewrite (IH (fun j Hj => H j (or_intror Hj))).
    destruct (valid f i) eqn:Ev; simpl.
    - destruct (H1 eq_refl) as [v [E _]]. rewrite E. reflexivity.
    - rewrite (H2 eq_refl). reflexivity.
  Qed.

  (* check() names exactly the listed directories whose file is missing, undecodable, or decodes to a
     value whose canonical hash differs from the directory name; it passes iff there is none *)
  Theorem check_exact : forall f ids, (forall i, In i ids -> isdir f (jdir i) = true) ->
    check_in f ids = match filter (fun i => negb (valid f i)) ids with [] => CkOk | l => CkCorrupt l end.
  Proof.
    intros f ids H. unfold Repair.check_in. rewrite (check_ids_exact f ids H).
    destruct (filter (fun i => negb (valid f i)) ids); reflexivity.
  Qed.

  Lemma valid_false_iff : forall f i, valid f i = false <->
    (forall c, get f (spf i) <> Some (File c)) \/
    (exists c, get f (spf i) = Some (File c) /\
               (loads_s (c_bytes c) = None \/ exists v, loads_s (c_bytes c) = Some v /\ cid v <> i)).
  Proof.
    intros f i. unfold Repair.valid. destruct (get f (spf i)) as [[c|]|].
    - destruct (loads_s (c_bytes c)) as [v|] eqn:E.
      + split.
        * intro H. right. exists c. split; auto. right. exists v. split; auto. apply str_eqb_neq. exact H.
        * intros [H|[c' [Hc [H|[v' [Hv Hn]]]]]].
          -- exfalso. apply (H c). reflexivity.
          -- inversion Hc; subst. congruence.
          -- inversion Hc; subst. rewrite E in Hv. inversion Hv; subst. apply str_eqb_neq. exact Hn.
      + split; auto. intros _. right. exists c. auto.
    - split; auto. intros _. left. intros c. discriminate.
    - split; auto. intros _. left. intros c. discriminate.
  Qed.

  (* a job is reported iff its value changed: harmless rewrites (key order, white space, escapes — any text
     that decodes to the same JSON value up to key order) are not flagged, and a changed value is missed
     only through an MD5 collision of the two canonical texts *)
  Theorem damage_detected_iff_value_changed : forall f ids i c v0,
    (forall j, In j ids -> isdir f (jdir j) = true) -> In i ids ->
    get f (spf i) = Some (File c) -> cid v0 = i ->
    let reported := match check_in f ids with CkCorrupt l => In i l | _ => False end in
    (reported <-> (loads_s (c_bytes c) = None \/ exists v, loads_s (c_bytes c) = Some v /\ cid v <> i)) /\
    (forall v, loads_s (c_bytes c) = Some v -> norm v = norm v0 -> ~ reported) /\
    (forall v, loads_s (c_bytes c) = Some v -> ~ reported ->
       canon frepr v = canon frepr v0 \/
       (canon frepr v <> canon frepr v0 /\ md5_hex (canon frepr v) = md5_hex (canon frepr v0))).
  Proof.
    intros f ids i c v0 Hd Hi Hg Hv0 reported.
    assert (R : reported <-> valid f i = false).
    { unfold reported. rewrite (check_exact f ids Hd).
      destruct (filter (fun j => negb (valid f j)) ids) as [|x l] eqn:E.
      - split; [contradiction|]. intro Hv. assert (Hin : In i (filter (fun j => negb (valid f j)) ids)).
        { apply filter_In. split; auto. rewrite Hv. reflexivity. }
        rewrite E in Hin. contradiction.
      - rewrite <- E. rewrite filter_In. split; [intros [_ H]; apply negb_true_iff; exact H|].
        intro H. split; auto. rewrite H. reflexivity. }
    split; [|split].
    - rewrite R, valid_false_iff. split.
      + intros [H|[c' [Hc H]]]; [exfalso; apply (H c); exact Hg|]. rewrite Hg in Hc. inversion Hc; subst. exact H.
      + intro H. right. exists c. auto.
    - intros v Hv Hn Hr. apply R in Hr. unfold Repair.valid in Hr. rewrite Hg, Hv in Hr.
      apply str_eqb_neq in Hr. apply Hr. unfold Cache.cid in *. rewrite (norm_cid frepr v v0 Hn). exact Hv0.
    - intros v Hv Hr. apply id_equal_only_by_md5_collision.
      destruct (valid f i) eqn:Ev; [|exfalso; apply Hr, R; reflexivity].
      unfold Repair.valid in Ev. rewrite Hg, Hv in Ev. apply str_eqb_eq in Ev. unfold Cache.cid in *. congruence.
  Qed.

  (* ================================================================ B. opening by id *)
  (* statepoint() of a job opened by id, in a session whose caches are sound, either raises or returns a
     state point hashing to the (resolved) id *)
  Theorem open_by_id_never_wrong : forall f s i s' sp,
    Inv f s -> open_sp_by_id f s i = (s', Ok sp) ->
    exists m, (m = i \/ resolve_id f i = Ok m) /\ cid sp = m.
  Proof.
    intros f s i s' sp H E. unfold Cache.open_sp_by_id, Cache.open_id in E.
    pose proof (ensure_read_sound frepr f s H) as H1.
    destruct (alookup i (s_cache (ensure_read f s))) as [x|] eqn:El.
    - unfold Cache.handle_sp in E. simpl in E. destruct (is_objb x); inversion E; subst.
      exists i. split; auto. apply alookup_In in El. apply H1 in El. exact El.
    - destruct (resolve_id f i) as [m|e] eqn:Er; [|inversion E].
      exists m. split; auto. unfold Cache.handle_sp in E. simpl in E.
      destruct (alookup m (s_cache (ensure_read f s))) as [x|] eqn:Em.
      + destruct (is_objb x); inversion E; subst. apply alookup_In in Em. apply H1 in Em. exact Em.
      + destruct (sp_load_view f m) as [[d v]|] eqn:Ev; inversion E; subst.
        unfold Cache.sp_load_view in Ev. destruct (sp_load f m) as [d'|] eqn:Ed; [|discriminate].
        destruct (sp_load_valid frepr loads_b f m d' Ed) as [Hid Hnn].
        destruct d'; simpl in Ev; inversion Ev; subst; auto. exfalso. apply Hnn. reflexivity.
  Qed.

  (* the cache (re)built AFTER the damage: update_cache() validates what it reads (whatever it returns or raises, no
     unvalidated state point reaches the cache file), so a fresh session opening by id afterwards is never wrong *)
  Theorem update_cache_then_open_never_wrong : forall f s f' s' r i s'' sp,
    Inv f s -> update_cache frepr loads_s f s = (f', s', r) ->
    open_sp_by_id f' fresh i = (s'', Ok sp) ->
    exists m, (m = i \/ resolve_id f' i = Ok m) /\ cid sp = m.
  Proof.
    intros f s f' s' r i s'' sp H E Eo.
    pose proof (inv_update_cache_gen frepr loads_s _ _ _ _ _ _ H E) as H1.
    eapply open_by_id_never_wrong; [|exact Eo]. split; [apply sound_nil|exact (proj2 H1)].
  Qed.

  (* ================================================================ C. repair() touches state point files and
     directory names only *)
  (* a data path inside a job directory: anything but the state point file and the backend's temp name *)
  Definition data_rel (rel : path) : Prop :=
    rel <> [] /\ last rel [] <> SPF /\ last rel [] <> TMPPFX ++ SPF.

  (* [f'] holds the same documents and data files as [f], byte for byte, possibly under another job
     directory name; nothing outside the workspace changed *)
  Definition frame (f f' : fs) : Prop :=
    ws_only f f' /\
    (forall i rel c, data_rel rel -> get f ([WS; i] ++ rel) = Some (File c) ->
       exists i', get f' ([WS; i'] ++ rel) = Some (File c)) /\
    (forall i' rel c, data_rel rel -> get f' ([WS; i'] ++ rel) = Some (File c) ->
       exists i, get f ([WS; i] ++ rel) = Some (File c)).

  Lemma frame_refl : forall f, frame f f.
  Proof. intro f. split; [apply ws_only_refl|]. split; eauto. Qed.

  Lemma frame_trans : forall a b c, frame a b -> frame b c -> frame a c.
  Proof.
    intros a b c [W1 [F1 G1]] [W2 [F2 G2]]. split; [eapply ws_only_trans; eauto|]. split.
    - intros i rel x Hd H. destruct (F1 _ _ _ Hd H) as [i1 H1]. eauto.
    - intros i rel x Hd H. destruct (G2 _ _ _ Hd H) as [i1 H1]. eauto.
  Qed.

  Lemma strip_jdir : forall b i rel, strip (jdir b) ([WS; i] ++ rel) = if str_eqb b i then Some rel else None.
  Proof. intros. simpl. reflexivity. Qed.

  Lemma data_path_neq_jdir : forall i j rel, rel <> [] -> [WS; i] ++ rel <> jdir j.
  Proof. intros i j rel H E. destruct rel; [contradiction|]. discriminate. Qed.

  Lemma frame_rename : forall f a b f', rename f (jdir a) (jdir b) = FOk f' -> frame f f'.
  Proof.
    intros f a b f' H.
    assert (W : ws_only f f') by (eapply rename_ws_only; eauto; reflexivity).
    destruct (path_eqb (jdir a) (jdir b)) eqn:Eab.
    { assert (f' = f).
      { unfold rename in H. destruct (get f (jdir a)); [|discriminate].
        destruct (get f (parent (jdir b))) as [[c|]|]; try discriminate. rewrite Eab in H. inversion H; reflexivity. }
      subst. apply frame_refl. }
    apply path_eqb_neq in Eab.
    destruct (get f (jdir a)) as [[c0|]|] eqn:Ea.
    - (* a regular file bearing an id-like name *)
      pose proof (fun q => get_rename_file f (jdir a) (jdir b) c0 f' q Ea Eab H) as G.
      assert (U : forall i rel, rel <> [] -> get f' ([WS; i] ++ rel) = get f ([WS; i] ++ rel)).
      { intros i rel Hr. rewrite G.
        assert (E1 : path_eqb ([WS; i] ++ rel) (jdir b) = false) by (apply path_eqb_neq, data_path_neq_jdir; auto).
        assert (E2 : path_eqb ([WS; i] ++ rel) (jdir a) = false) by (apply path_eqb_neq, data_path_neq_jdir; auto).
        rewrite E1, E2. reflexivity. }
      split; [exact W|]. split; intros i rel c [Hr _] Hg; exists i; [rewrite U|rewrite <- U]; auto.
    - (* a directory *)
      pose proof (fun q => get_rename_dir f (jdir a) (jdir b) f' q Ea Eab H) as G.
      destruct (rename_dir_ok_dest f (jdir a) (jdir b) f' Ea Eab H) as [_ Hch].
      assert (Hab : a <> b) by (intro E; subst; apply Eab; reflexivity).
      assert (U : forall i rel, rel <> [] ->
                get f' ([WS; i] ++ rel) = if str_eqb b i then get f ([WS; a] ++ rel)
                                          else if str_eqb a i then None else get f ([WS; i] ++ rel)).
      { intros i rel Hr. rewrite G, strip_jdir. destruct (str_eqb b i); [reflexivity|].
        unfold under. rewrite strip_jdir. destruct (str_eqb a i); reflexivity. }
      assert (Hempty : forall rel, rel <> [] -> get f ([WS; b] ++ rel) = None).
      { intros rel Hr. destruct rel as [|n r]; [contradiction|].
        change ([WS; b] ++ n :: r) with (jdir b ++ n :: r). rewrite get_app_cons.
        apply has_children_false. exact Hch. }
      split; [exact W|]. split.
      + intros i rel c [Hr _] Hg. destruct (str_eqb a i) eqn:Eai.
        * apply str_eqb_eq in Eai. subst i. exists b. rewrite U by auto. rewrite str_eqb_refl. exact Hg.
        * destruct (str_eqb b i) eqn:Ebi.
          -- apply str_eqb_eq in Ebi. subst i. rewrite Hempty in Hg by auto. discriminate.
          -- exists i. rewrite U by auto. rewrite Ebi, Eai. exact Hg.
      + intros i rel c [Hr _] Hg. rewrite U in Hg by auto. destruct (str_eqb b i).
        * exists a. exact Hg.
        * destruct (str_eqb a i); [discriminate|]. exists i. exact Hg.
    - unfold rename in H. rewrite Ea in H. discriminate.
  Qed.

  Lemma frame_makedirs : forall f i f', makedirs f (jdir i) = FOk f' -> frame f f'.
  Proof.
    intros f i f' H. split; [eapply makedirs_ws_only; eauto|]. split.
    - intros j rel c _ Hg. exists j. eapply makedirs_keeps; eauto.
    - intros j rel c _ Hg. exists j. destruct (get f ([WS; j] ++ rel)) as [x|] eqn:E.
      + rewrite (makedirs_keeps _ _ _ _ _ H E) in Hg. exact Hg.
      + unfold makedirs in H. destruct (makedirs_from_new _ _ _ _ _ _ H E) as [G|G]; rewrite G in Hg; discriminate.
  Qed.

  Lemma frame_json_write : forall f i v f', json_write frepr f (spf i) v = FOk f' -> frame f f'.
  Proof.
    intros f i v f' H. split; [eapply json_write_ws_only; eauto|].
    assert (U : forall j rel, data_rel rel -> get f' ([WS; j] ++ rel) = get f ([WS; j] ++ rel)).
    { intros j rel [Hr [H1 H2]]. rewrite (json_write_spf frepr f i v f' H).
      assert (E1 : path_eqb ([WS; j] ++ rel) (spf i) = false).
      { apply path_eqb_neq. intro E. unfold spf in E. simpl in E. inversion E; subst. apply H1. reflexivity. }
      assert (E2 : path_eqb ([WS; j] ++ rel) (tmpf i) = false).
      { apply path_eqb_neq. intro E. unfold tmpf in E. simpl in E. inversion E; subst. apply H2. reflexivity. }
      rewrite E1, E2. reflexivity. }
    split; intros j rel c Hd Hg; exists j; [rewrite U|rewrite <- U]; auto.
  Qed.

  Lemma frame_jinit : forall force f s sp f' s' r, jinit force f s sp = (f', s', r) -> frame f f'.
  Proof.
    intros force f s sp f' s' r H. unfold Cache.jinit in H.
    destruct (is_objb sp); simpl in H.
    - destruct (sp_load_view f (Cache.cid frepr sp)); [inversion H; subst; apply frame_refl|].
      destruct (makedirs f (jdir (Cache.cid frepr sp))) as [f1|] eqn:Em; [|inversion H; subst; apply frame_refl].
      pose proof (frame_makedirs _ _ _ Em) as W1.
      destruct (force || negb (isfile f1 (spf (Cache.cid frepr sp)))).
      + destruct (json_write frepr f1 (spf (Cache.cid frepr sp)) sp) as [f2|] eqn:Ew; [|inversion H; subst; auto].
        pose proof (frame_json_write _ _ _ _ Ew) as W2.
        destruct (sp_load_view f2 (Cache.cid frepr sp)) as [[d v]|]; inversion H; subst; eapply frame_trans; eauto.
      + destruct (sp_load_view f1 (Cache.cid frepr sp)) as [[d v]|]; inversion H; subst; auto.
    - inversion H; subst. apply frame_refl.
  Qed.

  Lemma frame_relocate : forall f i ci f1, relocate f i ci = Some f1 -> frame f f1.
  Proof.
    intros f i ci f1 H. unfold Repair.relocate in H.
    destruct (str_eqb ci i); [inversion H; subst; apply frame_refl|].
    destruct (rename f (jdir i) (jdir ci)) as [g|] eqn:Er; inversion H; subst. eapply frame_rename; eauto.
  Qed.

  Lemma frame_reinit : forall f s sp f' s' ok, reinit f s sp = (f', s', ok) -> frame f f'.
  Proof.
    intros f s sp f' s' ok H. unfold Repair.reinit in H.
    destruct (jinit false f s sp) as [[f2 s2] [u|e]] eqn:E1.
    - inversion H; subst. eapply frame_jinit; eauto.
    - destruct (jinit true f2 s2 sp) as [[f3 s3] [u|e']] eqn:E2; inversion H; subst;
        (eapply frame_trans; eapply frame_jinit; eauto).
  Qed.

  Lemma frame_loop : forall ids f s corrupted f' s' r,
    repair_loop f s ids corrupted = (f', s', r) -> frame f f'.
  Proof.
    induction ids as [|i rest IH]; intros f s corrupted f' s' r H; simpl in H.
    - inversion H; subst. apply frame_refl.
    - destruct (get_statepoint f s false i) as [s1 [sp|e]] eqn:Eg.
      + destruct (is_objb sp); simpl negb in H; cbv iota in H; [|eapply IH; eauto].
        destruct (relocate f i (Cache.cid frepr sp)) as [f1|] eqn:Em; [|eapply IH; eauto].
        pose proof (frame_relocate _ _ _ _ Em) as W1.
        destruct (reinit f1 s1 sp) as [[f2 s2] ok] eqn:Er.
        pose proof (frame_reinit _ _ _ _ _ _ Er) as W2.
        eapply frame_trans; [exact W1|]. eapply frame_trans; [exact W2|]. eapply IH; exact H.
      + eapply IH; eauto.
  Qed.

  Theorem repair_frame : forall f s ids f' s' r, repair_in f s ids = (f', s', r) -> frame f f'.
  Proof. intros f s ids f' s' r H. unfold Repair.repair_in in H. eapply frame_loop; eauto. Qed.


  (* ---- repair() keeps the caches sound (the unvalidated lookup is not stored any more) *)
  Lemma get_statepoint_false_sound : forall f s i s' r,
    Inv f s -> get_statepoint f s false i = (s', r) -> sound (s_cache s').
  Proof.
    intros f s i s' r H E. unfold Cache.get_statepoint in E.
    pose proof (ensure_read_sound frepr f s H) as H1.
    destruct (alookup i (s_cache (ensure_read f s))); [inversion E; subst; auto|].
    destruct (sp_from_ws f false i); cbv iota in E; inversion E; subst; auto.
  Qed.

  Lemma reinit_inv : forall f s sp f' s' ok, Inv f s -> reinit f s sp = (f', s', ok) -> Inv f' s'.
  Proof.
    intros f s sp f' s' ok H E.
    pose proof (frame_reinit _ _ _ _ _ _ E) as [W _].
    apply (Inv_ws_only frepr f f' s' (proj2 H) W).
    unfold Repair.reinit in E.
    destruct (jinit false f s sp) as [[f2 s2] [u|e]] eqn:E1.
    - inversion E; subst. eapply jinit_sound; [exact (proj1 H)|exact E1].
    - pose proof (jinit_sound frepr loads_b _ _ _ _ _ _ _ (proj1 H) E1) as H2.
      destruct (jinit true f2 s2 sp) as [[f3 s3] [u|e']] eqn:E2; inversion E; subst;
        (eapply jinit_sound; [exact H2|exact E2]).
  Qed.

  Lemma loop_inv : forall ids f s corrupted f' s' r,
    Inv f s -> repair_loop f s ids corrupted = (f', s', r) -> Inv f' s'.
  Proof.
    induction ids as [|i rest IH]; intros f s corrupted f' s' r H E; simpl in E.
    - inversion E; subst. exact H.
    - destruct (get_statepoint f s false i) as [s1 [sp|e]] eqn:Eg.
      + assert (H1 : Inv f s1) by (split; [eapply get_statepoint_false_sound; eauto|exact (proj2 H)]).
        destruct (is_objb sp); simpl negb in E; cbv iota in E; [|eapply IH; eauto].
        destruct (relocate f i (Cache.cid frepr sp)) as [f1|] eqn:Em; [|eapply IH; eauto].
        pose proof (frame_relocate _ _ _ _ Em) as [W1 _].
        assert (H2 : Inv f1 s1) by (apply (Inv_ws_only frepr f f1 s1 (proj2 H1) W1); exact (proj1 H1)).
        destruct (reinit f1 s1 sp) as [[f2 s2] ok] eqn:Er.
        pose proof (reinit_inv _ _ _ _ _ _ H2 Er) as H3.
        eapply IH; [exact H3|exact E].
      + eapply IH; [|exact E]. split; [eapply get_statepoint_false_sound; eauto|exact (proj2 H)].
  Qed.

  (* never accepted: after repair() — whatever its outcome — every entry of the session's cache and of the
     cache file still hashes to its key, so no later open by id or update_cache can serve a foreign state point *)
  Theorem repair_cache_sound : forall f s ids f' s' r,
    Inv f s -> repair_in f s ids = (f', s', r) -> Inv f' s'.
  Proof.
    intros f s ids f' s' r H E. unfold Repair.repair_in in E. eapply loop_inv; [|exact E].
    split; [apply read_cache_sound; exact H|exact (proj2 H)].
  Qed.

  (* ================================================================ D. repair() restores *)
  (* the two decoders invert the file printer, and agree whenever the bytes decoder yields a value *)
  Hypothesis Hinv_s : forall v, loads_s (dumps frepr v) = Some v.
  Hypothesis Hinv_b : forall v, loads_b (dumps frepr v) = DVal v.
  Hypothesis Hagree : forall b v, loads_b b = DVal v -> loads_s b = Some v.

  (* no directory bears the name of a state point file or of its temp file *)
  Definition NoSpDirs (f : fs) : Prop := forall j, get f (spf j) <> Some Dir /\ get f (tmpf j) <> Some Dir.

  Lemma makedirs_jdir_existing : forall f i,
    get f [WS] = Some Dir -> get f (jdir i) = Some Dir -> makedirs f (jdir i) = FOk f.
  Proof.
    intros f i H1 H2. unfold makedirs, jdir in *. simpl in *. rewrite H1, H2. reflexivity.
  Qed.

  Lemma json_write_ok : forall f i v,
    get f (jdir i) = Some Dir -> get f (tmpf i) <> Some Dir -> get f (spf i) <> Some Dir ->
    exists f', json_write frepr f (spf i) v = FOk f'.
  Proof.
    intros f i v Hd Ht Hs. unfold json_write. rewrite tmp_of_spf.
    assert (Ew : exists f1, write_file f (tmpf i) (sp_content frepr v) = FOk f1).
    { unfold write_file. change (parent (tmpf i)) with (jdir i). rewrite Hd.
      destruct (get f (tmpf i)) as [[c|]|]; eauto. exfalso. apply Ht. reflexivity. }
    destruct Ew as [f1 Ew]. rewrite Ew.
    pose proof (fun q => get_write_file f (tmpf i) _ f1 q Ew) as G1.
    unfold rename. rewrite (G1 (tmpf i)), path_eqb_refl.
    change (parent (spf i)) with (jdir i). rewrite (G1 (jdir i)).
    assert (E1 : path_eqb (jdir i) (tmpf i) = false) by (apply path_eqb_neq; discriminate). rewrite E1, Hd.
    assert (E2 : path_eqb (tmpf i) (spf i) = false) by (apply path_eqb_neq, tmpf_neq_spf). rewrite E2.
    rewrite (G1 (spf i)). assert (E3 : path_eqb (spf i) (tmpf i) = false) by (rewrite path_eqb_sym; exact E2).
    rewrite E3. destruct (get f (spf i)) as [[c|]|]; eauto. exfalso. apply Hs. reflexivity.
  Qed.

  Lemma valid_written : forall f i v f', json_write frepr f (spf i) v = FOk f' -> cid v = i -> valid f' i = true.
  Proof.
    intros f i v f' H Hc. unfold Repair.valid. rewrite (json_write_spf frepr f i v f' H), path_eqb_refl.
    simpl. rewrite Hinv_s. apply str_eqb_eq. exact Hc.
  Qed.

  Lemma load_written : forall f i v f', json_write frepr f (spf i) v = FOk f' -> cid v = i -> is_objb v = true ->
    sp_load_view f' i = Ok (v, v).
  Proof.
    intros f i v f' H Hc Ho. unfold Cache.sp_load_view, Cache.sp_load.
    rewrite (json_write_spf frepr f i v f' H), path_eqb_refl. simpl. rewrite Hinv_b.
    unfold Cache.cid in *. destruct v; try discriminate Ho. rewrite Hc, str_eqb_refl. reflexivity.
  Qed.

  (* a successful load (with a file) means check() accepts the job too *)
  Lemma load_ok_valid : forall f i d v, sp_load_view f i = Ok (d, v) -> valid f i = true.
  Proof.
    intros f i d v H. unfold Cache.sp_load_view in H. destruct (sp_load f i) as [d'|] eqn:E; [|discriminate].
    unfold Cache.sp_load in E. unfold Repair.valid.
    destruct (get f (spf i)) as [[c|]|]; try discriminate.
    destruct (loads_b (c_bytes c)) as [x| | |] eqn:Eb; try discriminate.
    rewrite (Hagree _ _ Eb).
    destruct x; try discriminate E; (destruct (str_eqb (Cache.cid frepr _) i) eqn:Ex; [reflexivity|discriminate E]).
  Qed.

  (* the re-initialisation step of repair() on a job whose state point is known makes it valid *)
  Lemma reinit_restores : forall f s sp i,
    is_objb sp = true -> cid sp = i ->
    get f [WS] = Some Dir -> get f (jdir i) = Some Dir ->
    get f (spf i) <> Some Dir -> get f (tmpf i) <> Some Dir ->
    exists f' s', reinit f s sp = (f', s', true) /\ valid f' i = true.
  Proof.
    intros f s sp i Ho Hc Hw Hd Hs Ht. unfold Repair.reinit, Cache.jinit. rewrite Ho. simpl negb. cbv iota.
    unfold Cache.cid in *. rewrite Hc. rewrite (makedirs_jdir_existing f i Hw Hd).
    destruct (sp_load_view f i) as [[d v]|e] eqn:El.
    - exists f, s. split; auto. eapply load_ok_valid; eauto.
    - destruct (isfile f (spf i)) eqn:Ef; simpl orb; cbv iota.
      + (* a damaged file is there: the first init fails, the forced one rewrites *)
        rewrite El. cbv beta iota. rewrite El, (makedirs_jdir_existing f i Hw Hd).
        destruct (json_write_ok f i sp Hd Ht Hs) as [f2 Ew]. rewrite Ew.
        rewrite (load_written f i sp f2 Ew Hc Ho). cbv beta iota. eexists _, _. split; [reflexivity|].
        eapply valid_written; eauto.
      + destruct (json_write_ok f i sp Hd Ht Hs) as [f2 Ew]. rewrite Ew.
        rewrite (load_written f i sp f2 Ew Hc Ho). cbv beta iota. eexists _, _. split; [reflexivity|].
        eapply valid_written; eauto.
  Qed.


  (* ---- what one iteration of the loop does to the rest of the workspace *)
  Definition WsOk (f : fs) : Prop := get f [WS] = Some Dir /\ NoSpDirs f.

  Lemma valid_ext : forall f f' i, get f' (spf i) = get f (spf i) -> valid f' i = valid f i.
  Proof. intros f f' i H. unfold Repair.valid. rewrite H. reflexivity. Qed.

  Lemma valid_file : forall f i, valid f i = true -> exists c, get f (spf i) = Some (File c).
  Proof.
    intros f i H. unfold Repair.valid in H. destruct (get f (spf i)) as [[c|]|]; try discriminate. eauto.
  Qed.

  Lemma relocate_facts : forall f k ck f1, relocate f k ck = Some f1 -> WsOk f ->
    WsOk f1 /\ cache_file f1 = cache_file f /\
    (forall j, j <> k -> get f (jdir j) = Some Dir -> get f1 (jdir j) = Some Dir) /\
    (forall j, j <> k -> valid f j = true -> valid f1 j = true).
  Proof.
    intros f k ck f1 H [Hw Hn]. unfold Repair.relocate in H.
    destruct (str_eqb ck k) eqn:Eck; [inversion H; subst; repeat split; auto; apply Hn|].
    destruct (rename f (jdir k) (jdir ck)) as [g|] eqn:Er; inversion H; subst g. clear H.
    assert (W : ws_only f f1) by (eapply rename_ws_only; eauto; reflexivity).
    apply str_eqb_neq in Eck.
    assert (Eab : jdir k <> jdir ck) by (intro E; inversion E; congruence).
    split; [|split; [apply ws_only_cache_file; exact W|]].
    - destruct (get f (jdir k)) as [[c0|]|] eqn:Ea.
      + pose proof (fun q => get_rename_file f (jdir k) (jdir ck) c0 f1 q Ea Eab Er) as G.
        split.
        * rewrite G. assert (E1 : path_eqb [WS] (jdir ck) = false) by (apply path_eqb_neq; discriminate).
          assert (E2 : path_eqb [WS] (jdir k) = false) by (apply path_eqb_neq; discriminate).
          rewrite E1, E2. exact Hw.
        * intro j. rewrite !G.
          assert (E1 : path_eqb (spf j) (jdir ck) = false) by (apply path_eqb_neq; discriminate).
          assert (E2 : path_eqb (spf j) (jdir k) = false) by (apply path_eqb_neq; discriminate).
          assert (E3 : path_eqb (tmpf j) (jdir ck) = false) by (apply path_eqb_neq; discriminate).
          assert (E4 : path_eqb (tmpf j) (jdir k) = false) by (apply path_eqb_neq; discriminate).
          rewrite E1, E2, E3, E4. apply Hn.
      + pose proof (fun q => get_rename_dir f (jdir k) (jdir ck) f1 q Ea Eab Er) as G.
        split.
        * rewrite G. simpl. exact Hw.
        * intro j. change (spf j) with ([WS; j] ++ [SPF]). change (tmpf j) with ([WS; j] ++ [TMPPFX ++ SPF]).
          rewrite !G, !strip_jdir. unfold under. rewrite !strip_jdir.
          destruct (str_eqb ck j).
          -- apply (Hn k).
          -- destruct (str_eqb k j); [split; discriminate|apply (Hn j)].
      + unfold rename in Er. rewrite Ea in Er. discriminate.
    - destruct (get f (jdir k)) as [[c0|]|] eqn:Ea.
      + pose proof (fun q => get_rename_file f (jdir k) (jdir ck) c0 f1 q Ea Eab Er) as G.
        split.
        * intros j Hj Hd. rewrite G. destruct (path_eqb (jdir j) (jdir ck)) eqn:E1.
          -- (* a file renamed onto an existing directory: impossible *)
             apply path_eqb_eq in E1. inversion E1; subst j. exfalso.
             unfold rename in Er. rewrite Ea in Er. destruct (get f (parent (jdir ck))) as [[x|]|]; try discriminate.
             apply path_eqb_neq in Eab. rewrite Eab in Er. rewrite Hd in Er. discriminate.
          -- assert (E2 : path_eqb (jdir j) (jdir k) = false) by (apply path_eqb_neq; intro E; inversion E; congruence).
             rewrite E2. exact Hd.
        * intros j Hj Hv. rewrite (valid_ext f f1 j); auto. rewrite G.
          assert (E1 : path_eqb (spf j) (jdir ck) = false) by (apply path_eqb_neq; discriminate).
          assert (E2 : path_eqb (spf j) (jdir k) = false) by (apply path_eqb_neq; discriminate).
          rewrite E1, E2. reflexivity.
      + pose proof (fun q => get_rename_dir f (jdir k) (jdir ck) f1 q Ea Eab Er) as G.
        destruct (rename_dir_ok_dest f (jdir k) (jdir ck) f1 Ea Eab Er) as [_ Hch].
        split.
        * intros j Hj Hd. rewrite G. change (jdir j) with ([WS; j] ++ []). rewrite strip_jdir.
          destruct (str_eqb ck j); [rewrite app_nil_r; exact Ea|].
          unfold under. rewrite strip_jdir.
          assert (E : str_eqb k j = false) by (apply str_eqb_neq; congruence). rewrite E. exact Hd.
        * intros j Hj Hv. rewrite (valid_ext f f1 j); auto.
          change (spf j) with ([WS; j] ++ [SPF]). rewrite G, strip_jdir. unfold under. rewrite strip_jdir.
          destruct (str_eqb ck j) eqn:E1.
          -- (* the destination held a valid job: it had children, the rename cannot have succeeded *)
             apply str_eqb_eq in E1. subst j. exfalso. destruct (valid_file f ck Hv) as [c Hc].
             change (spf ck) with (jdir ck ++ [SPF]) in Hc. rewrite get_app_cons in Hc.
             rewrite (has_children_false f (jdir ck) SPF [] Hch) in Hc. discriminate.
          -- assert (E : str_eqb k j = false) by (apply str_eqb_neq; congruence). rewrite E. reflexivity.
      + unfold rename in Er. rewrite Ea in Er. discriminate.
  Qed.


  Lemma makedirs_jdir_facts : forall f i f1, makedirs f (jdir i) = FOk f1 -> WsOk f ->
    WsOk f1 /\ (forall j, get f (jdir j) = Some Dir -> get f1 (jdir j) = Some Dir) /\
    (forall j, get f1 (spf j) = get f (spf j)) /\ (forall j, get f1 (tmpf j) = get f (tmpf j)).
  Proof.
    intros f i f1 H [Hw Hn].
    assert (F3 : forall q, length q = 3%nat -> get f1 q = get f q).
    { intros q Hq. unfold makedirs in H. eapply makedirs_from_frame; [exact H| |destruct q; discriminate].
      simpl. destruct (under q [WS; i]) eqn:E; auto. apply under_spec in E. destruct E as [r E].
      apply (f_equal (@length str)) in E. rewrite app_length, Hq in E. simpl in E. lia. }
    assert (S : forall j, get f1 (spf j) = get f (spf j)) by (intro j; apply F3; reflexivity).
    assert (T : forall j, get f1 (tmpf j) = get f (tmpf j)) by (intro j; apply F3; reflexivity).
    split; [split|split; [|split]]; auto.
    - eapply makedirs_keeps; eauto.
    - intro j. rewrite S, T. apply Hn.
    - intros j Hd. eapply makedirs_keeps; eauto.
  Qed.

  Lemma json_write_facts : forall f i v f1, json_write frepr f (spf i) v = FOk f1 -> WsOk f ->
    WsOk f1 /\ (forall j, get f (jdir j) = Some Dir -> get f1 (jdir j) = Some Dir) /\
    (forall j, j <> i -> get f1 (spf j) = get f (spf j)).
  Proof.
    intros f i v f1 H [Hw Hn]. pose proof (json_write_spf frepr f i v f1 H) as G.
    split; [split|split].
    - rewrite G. assert (E1 : path_eqb [WS] (spf i) = false) by (apply path_eqb_neq; discriminate).
      assert (E2 : path_eqb [WS] (tmpf i) = false) by (apply path_eqb_neq; discriminate). rewrite E1, E2. exact Hw.
    - intro j. rewrite !G. split.
      + destruct (path_eqb (spf j) (spf i)); [discriminate|].
        destruct (path_eqb (spf j) (tmpf i)); [discriminate|apply Hn].
      + destruct (path_eqb (tmpf j) (spf i)); [discriminate|].
        destruct (path_eqb (tmpf j) (tmpf i)); [discriminate|apply Hn].
    - intros j Hd. rewrite G.
      assert (E1 : path_eqb (jdir j) (spf i) = false) by (apply path_eqb_neq; discriminate).
      assert (E2 : path_eqb (jdir j) (tmpf i) = false) by (apply path_eqb_neq; discriminate). rewrite E1, E2. exact Hd.
    - intros j Hj. rewrite G.
      assert (E1 : path_eqb (spf j) (spf i) = false) by (apply path_eqb_neq; intro E; inversion E; congruence).
      assert (E2 : path_eqb (spf j) (tmpf i) = false) by (apply path_eqb_neq; discriminate). rewrite E1, E2. reflexivity.
  Qed.

  (* what an entry registered by Job.init looks like *)
  Definition reg_ok (i0 : str) (d : json) : Prop := cid d = i0 /\ is_objb d = true.

  Lemma sp_load_view_reg_ok : forall f i d v, sp_load_view f i = Ok (d, v) -> reg_ok i d.
  Proof.
    intros f i d v H. split; [eapply sp_load_view_valid; eauto|].
    unfold Cache.sp_load_view in H. destruct (sp_load f i) as [d'|] eqn:E; [|discriminate].
    destruct (sp_load_valid frepr loads_b f i d' E) as [_ Hnn].
    destruct d'; simpl in H; inversion H; subst; auto; exfalso; apply Hnn; reflexivity.
  Qed.

  Lemma jinit_facts : forall force f s sp f' s' r, jinit force f s sp = (f', s', r) -> WsOk f ->
    let i0 := cid sp in
    WsOk f' /\ cache_file f' = cache_file f /\
    (forall j, get f (jdir j) = Some Dir -> get f' (jdir j) = Some Dir) /\
    (forall j, j <> i0 -> get f' (spf j) = get f (spf j)) /\
    (valid f i0 = true -> valid f' i0 = true) /\
    (s' = s \/ exists d, s' = reg s i0 d /\ reg_ok i0 d).
  Proof.
    intros force f s sp f' s' r H Hok i0.
    assert (HC : cache_file f' = cache_file f) by (apply ws_only_cache_file; eapply jinit_ws_only; eauto).
    unfold Cache.jinit in H. fold i0 in H. unfold Cache.cid in H. fold (cid sp) in H. fold i0 in H.
    destruct (is_objb sp) eqn:Ho; simpl in H.
    - destruct (sp_load_view f i0) as [[d0 v0]|e0] eqn:El0.
      { inversion H; subst. repeat split; auto; apply Hok. }
      destruct (makedirs f (jdir i0)) as [f1|] eqn:Em; [|inversion H; subst; repeat split; auto; apply Hok].
      destruct (makedirs_jdir_facts f i0 f1 Em Hok) as [Hok1 [D1 [S1 T1]]].
      destruct (force || negb (isfile f1 (spf i0))) eqn:Ewr.
      + destruct (json_write frepr f1 (spf i0) sp) as [f2|] eqn:Ew.
        * destruct (json_write_facts f1 i0 sp f2 Ew Hok1) as [Hok2 [D2 S2]].
          assert (V2 : valid f2 i0 = true) by (eapply valid_written; eauto).
          destruct (sp_load_view f2 i0) as [[d v]|e] eqn:El; inversion H; subst;
            (split; [exact Hok2|]; split; [exact HC|]; split; [intros j Hd; apply D2, D1, Hd|];
             split; [intros j Hj; rewrite S2, S1 by auto; reflexivity|]; split; [intros _; exact V2|]).
          -- right. exists d. split; auto. eapply sp_load_view_reg_ok; eauto.
          -- left. reflexivity.
        * inversion H; subst. split; [exact Hok1|]. split; [exact HC|]. split; [exact D1|].
          split; [intros j _; apply S1|]. split; [intro Hv; rewrite (valid_ext f f' i0 (S1 i0)); exact Hv|auto].
      + destruct (sp_load_view f1 i0) as [[d v]|e] eqn:El; inversion H; subst;
          (split; [exact Hok1|]; split; [exact HC|]; split; [exact D1|]; split; [intros j _; apply S1|];
           split; [intro Hv; rewrite (valid_ext f f' i0 (S1 i0)); exact Hv|]).
        * right. exists d. split; auto. eapply sp_load_view_reg_ok; eauto.
        * left. reflexivity.
    - inversion H; subst. split; [exact Hok|]. repeat split; auto.
  Qed.


  (* the session after Job.init: either unchanged or one or two registrations under cid sp *)
  Inductive regs (i0 : str) : sess -> sess -> Prop :=
  | regs_refl : forall s, regs i0 s s
  | regs_step : forall s s1 d, regs i0 s s1 -> reg_ok i0 d -> regs i0 s (reg s1 i0 d).

  Lemma reinit_facts : forall f s sp f' s' ok, reinit f s sp = (f', s', ok) -> WsOk f ->
    let i0 := cid sp in
    WsOk f' /\ cache_file f' = cache_file f /\
    (forall j, get f (jdir j) = Some Dir -> get f' (jdir j) = Some Dir) /\
    (forall j, j <> i0 -> get f' (spf j) = get f (spf j)) /\
    (valid f i0 = true -> valid f' i0 = true) /\ regs i0 s s'.
  Proof.
    intros f s sp f' s' ok H Hok i0. unfold Repair.reinit in H.
    destruct (jinit false f s sp) as [[f2 s2] r1] eqn:E1.
    destruct (jinit_facts _ _ _ _ _ _ _ E1 Hok) as [Hok2 [C2 [D2 [S2 [V2 R2]]]]].
    assert (RG2 : regs i0 s s2).
    { destruct R2 as [->|[d [-> Hd]]]; [apply regs_refl|apply regs_step; [apply regs_refl|exact Hd]]. }
    destruct r1 as [u|e].
    - inversion H; subst. split; [exact Hok2|]. split; [exact C2|]. split; [exact D2|]. split; [exact S2|]. split; [exact V2|exact RG2].
    - destruct (jinit true f2 s2 sp) as [[f3 s3] r2] eqn:E2.
      destruct (jinit_facts _ _ _ _ _ _ _ E2 Hok2) as [Hok3 [C3 [D3 [S3 [V3 R3]]]]].
      assert (RG3 : regs i0 s s3).
      { destruct R3 as [->|[d [-> Hd]]]; [exact RG2|apply regs_step; [exact RG2|exact Hd]]. }
      assert (f' = f3 /\ s' = s3) by (destruct r2; inversion H; auto). destruct H0; subst.
      split; [exact Hok3|]. split; [congruence|]. split; [intros j Hd; apply D3, D2, Hd|].
      split; [intros j Hj; rewrite S3, S2 by auto; reflexivity|]. split; [intro Hv; apply V3, V2, Hv|exact RG3].
  Qed.

  (* ---- the cache entry of the job to be restored *)
  Definition good (i : str) (x : json) : Prop := cid x = i /\ is_objb x = true.
  Definition GoodE (i : str) (c : cache) : Prop := exists x, alookup i c = Some x /\ good i x.
  Definition FileGood (i : str) (f : fs) : Prop :=
    forall c v, cache_file f = Some c -> In (i, v) c -> good i v.

  Lemma GoodE_aset : forall i c k v, GoodE i c -> (k = i -> good i v) -> GoodE i (aset k v c).
  Proof.
    intros i c k v [x [Hx Hg]] Hk. destruct (str_eq_dec k i) as [->|Hne].
    - exists v. split; [apply alookup_aset_same|auto].
    - exists x. split; auto. rewrite alookup_aset_other; auto.
  Qed.

  Lemma GoodE_dict_upd : forall i new c,
    (forall v, In (i, v) new -> good i v) -> GoodE i c \/ In i (map fst new) -> GoodE i (dict_upd c new).
  Proof.
    unfold dict_upd. induction new as [|[k v] new IH]; simpl; intros c Hg H.
    - destruct H as [H|[]]. exact H.
    - apply IH; [intros v' Hv'; apply Hg; auto|].
      destruct (str_eq_dec k i) as [->|Hne].
      + left. exists v. split; [apply alookup_aset_same|apply Hg; auto].
      + destruct H as [H|[H|H]]; [left; apply GoodE_aset; auto; congruence|congruence|right; exact H].
  Qed.

  Lemma GoodE_ensure_read : forall i f s, FileGood i f -> GoodE i (s_cache s) -> GoodE i (s_cache (ensure_read f s)).
  Proof.
    intros i f s Hf Hg. unfold Cache.ensure_read, Cache.read_cache. destruct (s_read s); auto.
    destruct (cache_file f) as [c|] eqn:E; simpl; auto. apply GoodE_dict_upd; auto. intros v Hv. eapply Hf; eauto.
  Qed.

  Lemma GoodE_regs : forall i i0 s s', regs i0 s s' -> GoodE i (s_cache s) -> GoodE i (s_cache s').
  Proof.
    intros i i0 s s' R. induction R as [|s0 s1 d R IH Hrk]; intro Hg; auto.
    destruct Hrk as [Hc Hd]. simpl. apply GoodE_aset; auto. intro E. subst i0. split; auto.
  Qed.

  Lemma get_statepoint_GoodE : forall i f s k s1 r, FileGood i f -> GoodE i (s_cache s) ->
    get_statepoint f s false k = (s1, r) -> GoodE i (s_cache s1).
  Proof.
    intros i f s k s1 r Hf Hg H. unfold Cache.get_statepoint in H.
    pose proof (GoodE_ensure_read i f s Hf Hg) as H1.
    destruct (alookup k (s_cache (ensure_read f s))); [inversion H; subst; auto|].
    destruct (sp_from_ws f false k); cbv iota in H; inversion H; subst; auto.
  Qed.

  (* ---- valid jobs stay valid to the end of the loop *)
  Lemma loop_keeps_valid : forall ids f s corrupted f' s' r i,
    ~ In i ids -> WsOk f -> valid f i = true ->
    repair_loop f s ids corrupted = (f', s', r) -> valid f' i = true.
  Proof.
    induction ids as [|k rest IH]; intros f s corrupted f' s' r i Hni Hok Hv H; simpl in H.
    - inversion H; subst. exact Hv.
    - assert (Hk : i <> k) by (intro E; apply Hni; left; auto).
      assert (Hr : ~ In i rest) by (intro E; apply Hni; right; auto).
      destruct (get_statepoint f s false k) as [s1 [sp|e]] eqn:Eg.
      + destruct (is_objb sp); simpl negb in H; cbv iota in H; [|eapply IH; eauto].
        destruct (relocate f k (Cache.cid frepr sp)) as [f1|] eqn:Em; [|eapply IH; eauto].
        destruct (relocate_facts _ _ _ _ Em Hok) as [Hok1 [_ [_ V1]]].
        specialize (V1 i Hk Hv).
        destruct (reinit f1 s1 sp) as [[f2 s2] ok] eqn:Er.
        destruct (reinit_facts _ _ _ _ _ _ Er Hok1) as [Hok2 [_ [_ [S2 [V2 _]]]]].
        assert (Hv2 : valid f2 i = true).
        { destruct (str_eq_dec i (cid sp)) as [E|E]; [subst i; apply V2; exact V1|].
          rewrite (valid_ext f1 f2 i (S2 i E)). exact V1. }
        eapply IH; [exact Hr|exact Hok2|exact Hv2|exact H].
      + eapply IH; eauto.
  Qed.

  (* ---- the main induction: a damaged job whose state point is in the cache validates afterwards *)
  Lemma loop_restores_cached : forall ids f s corrupted f' s' r i,
    NoDup ids -> In i ids ->
    WsOk f -> get f (jdir i) = Some Dir -> GoodE i (s_cache s) -> FileGood i f ->
    repair_loop f s ids corrupted = (f', s', r) ->
    valid f' i = true.
  Proof.
    induction ids as [|k rest IH]; intros f s corrupted f' s' r i Hnd Hin Hok Hd Hg Hf H; [contradiction|].
    inversion Hnd as [|? ? Hk Hnd']; subst. simpl in H.
    destruct (str_eq_dec k i) as [->|Hki].
    - (* this job's turn *)
      pose proof (GoodE_ensure_read i f s Hf Hg) as [x [Hx [Hc Ho]]].
      assert (Eg : get_statepoint f s false i = (ensure_read f s, Ok x)).
      { unfold Cache.get_statepoint. rewrite Hx. reflexivity. }
      rewrite Eg in H. rewrite Ho in H. simpl negb in H. cbv iota in H. unfold Cache.cid in *. rewrite Hc in H.
      unfold Repair.relocate in H. rewrite str_eqb_refl in H.
      destruct (reinit_restores f (ensure_read f s) x i Ho Hc (proj1 Hok) Hd (proj1 (proj2 Hok i)) (proj2 (proj2 Hok i)))
        as [f2 [s2 [Er Hv2]]].
      rewrite Er in H.
      destruct (reinit_facts _ _ _ _ _ _ Er Hok) as [Hok2 _].
      eapply loop_keeps_valid; [exact Hk|exact Hok2|exact Hv2|exact H].
    - destruct Hin as [E|Hin]; [congruence|].
      destruct (get_statepoint f s false k) as [s1 [sp|e]] eqn:Eg.
      + pose proof (get_statepoint_GoodE i f s k s1 _ Hf Hg Eg) as Hg1.
        destruct (is_objb sp); simpl negb in H; cbv iota in H; [|eapply IH; eauto].
        destruct (relocate f k (Cache.cid frepr sp)) as [f1|] eqn:Em; [|eapply IH; eauto].
        destruct (relocate_facts _ _ _ _ Em Hok) as [Hok1 [C1 [D1 _]]].
        assert (Hd1 : get f1 (jdir i) = Some Dir) by (apply D1; auto).
        assert (Hf1 : FileGood i f1) by (intros c v Hc; rewrite C1 in Hc; eapply Hf; eauto).
        destruct (reinit f1 s1 sp) as [[f2 s2] ok] eqn:Er.
        destruct (reinit_facts _ _ _ _ _ _ Er Hok1) as [Hok2 [C2 [D2 [_ [_ R2]]]]].
        assert (Hf2 : FileGood i f2) by (intros c v Hc; rewrite C2 in Hc; eapply Hf1; eauto).
        pose proof (GoodE_regs i _ _ _ R2 Hg1) as Hg2.
        eapply IH; [exact Hnd'|exact Hin|exact Hok2|apply D2; exact Hd1|exact Hg2|exact Hf2|exact H].
      + pose proof (get_statepoint_GoodE i f s k s1 _ Hf Hg Eg) as Hg1. eapply IH; eauto.
  Qed.

  (* repair(): every damaged job whose state point is in the (sound) persistent cache validates afterwards *)
  Theorem repair_restores_cached : forall f s ids f' s' r i c sp,
    NoDup ids -> In i ids ->
    get f [WS] = Some Dir -> NoSpDirs f -> get f (jdir i) = Some Dir ->
    cache_file f = Some c -> In (i, sp) c -> (forall v, In (i, v) c -> cid v = i /\ is_objb v = true) ->
    repair_in f s ids = (f', s', r) ->
    valid f' i = true.
  Proof.
    intros f s ids f' s' r i c sp Hnd Hin Hw Hns Hd Hc Hsp Hgood H.
    unfold Repair.repair_in in H.
    assert (Hf : FileGood i f).
    { intros c' v Hc' Hv. rewrite Hc in Hc'. inversion Hc'; subst. apply Hgood. exact Hv. }
    eapply (loop_restores_cached ids f (fst (read_cache f s)) [] f' s' r i); eauto.
    - split; auto.
    - unfold Cache.read_cache. rewrite Hc. simpl. apply GoodE_dict_upd; auto.
      right. apply (in_map fst) in Hsp. exact Hsp.
  Qed.

  (* ---- a misnamed directory with an intact file: whenever the loop reaches it in a state where its
     state point is not cached and the directory of its true id is free, it is moved there and validates *)
  Theorem loop_restores_misnamed_partial : forall rest f s corrupted f' s' r j c v t,
    WsOk f -> get f (jdir j) = Some Dir ->
    alookup j (s_cache (ensure_read f s)) = None ->
    get f (spf j) = Some (File c) -> loads_b (c_bytes c) = DVal v -> is_objb v = true ->
    cid v = t -> t <> j ->
    (get f (jdir t) = None \/ get f (jdir t) = Some Dir) -> has_children f (jdir t) = false ->
    ~ In t rest ->
    repair_loop f s (j :: rest) corrupted = (f', s', r) ->
    valid f' t = true.
  Proof.
    intros rest f s corrupted f' s' r j c v t Hok Hd Hmiss Hg Hb Ho Hc Htj Hfree Hch Hnr H.
    pose proof (Hagree _ _ Hb) as Hs.
    simpl in H.
    assert (Eg : get_statepoint f s false j = (ensure_read f s, Ok v)).
    { unfold Cache.get_statepoint. rewrite Hmiss. unfold Cache.sp_from_ws. rewrite Hg, Hs. reflexivity. }
    rewrite Eg in H. rewrite Ho in H. simpl negb in H. cbv iota in H. unfold Cache.cid in *. rewrite Hc in H.
    assert (Hab : jdir j <> jdir t) by (intro E; inversion E; congruence).
    assert (Er : rename f (jdir j) (jdir t) = FOk (move_tree (jdir j) (jdir t) (del_under (jdir t) f))).
    { apply rename_dir_ok; auto.
      - exact (proj1 Hok).
      - unfold under. change (jdir t) with ([WS; t] ++ []). rewrite strip_jdir.
        assert (E : str_eqb j t = false) by (apply str_eqb_neq; congruence). rewrite E. reflexivity.
      - unfold under. change (jdir j) with ([WS; j] ++ []). rewrite strip_jdir.
        assert (E : str_eqb t j = false) by (apply str_eqb_neq; congruence). rewrite E. reflexivity. }
    set (f1 := move_tree (jdir j) (jdir t) (del_under (jdir t) f)) in *.
    assert (Em : relocate f j t = Some f1).
    { unfold Repair.relocate. assert (E : str_eqb t j = false) by (apply str_eqb_neq; congruence).
      rewrite E, Er. reflexivity. }
    rewrite Em in H.
    destruct (relocate_facts _ _ _ _ Em Hok) as [Hok1 _].
    assert (Hg1 : get f1 (spf t) = Some (File c)).
    { change (spf t) with (jdir t ++ [SPF]). rewrite (rename_dir_carry f (jdir j) (jdir t) f1 [SPF] Hd Hab Er). exact Hg. }
    assert (Hv1 : valid f1 t = true).
    { unfold Repair.valid. rewrite Hg1, Hs. unfold Cache.cid. rewrite Hc. apply str_eqb_refl. }
    assert (Ei : reinit f1 (ensure_read f s) v = (f1, ensure_read f s, true)).
    { unfold Repair.reinit, Cache.jinit. rewrite Ho. simpl negb. cbv iota. unfold Cache.cid. rewrite Hc.
      assert (El : sp_load_view f1 t = Ok (v, v)).
      { unfold Cache.sp_load_view, Cache.sp_load. rewrite Hg1, Hb. unfold Cache.cid. rewrite Hc, str_eqb_refl.
        destruct v; try discriminate Ho. reflexivity. }
      rewrite El. reflexivity. }
    rewrite Ei in H.
    eapply loop_keeps_valid; [exact Hnr|exact Hok1|exact Hv1|exact H].
  Qed.

End P.

(* ================================================================ E. the former defect witnesses, now examples *)
Definition w_bad : list N := [123%N].                       (* the text "{" : a truncated file *)
Definition w_tab : list (list N * json) := [(dumps ex_fr ex_u0, ex_u0); (dumps ex_fr ex_u1, ex_u1)].
Definition w_ls (b : list N) : option json := CorrC08.tab_lookup w_tab b.
Definition w_lb (b : list N) : dec := match CorrC08.tab_lookup w_tab b with Some v => DVal v | None => DJsonErr end.
Definition w_a : str := calc_id ex_fr ex_u0.
Definition w_t : str := calc_id ex_fr ex_u1.
Definition w_x : str := calc_id ex_fr (JInt 7).              (* some other well-formed id *)

(* 1. job a has a truncated file, directory x holds the intact file of job t: in BOTH listing orders a is
      reported and t is restored (before fix: bdc03b3 the order [a; x] left the loop at a) *)
Definition w_fs1 : fs :=
  [([DOTSIGNAC], Dir); ([WS], Dir);
   ([WS; w_a], Dir); ([WS; w_a; SPF], File (mkContent w_bad None));
   ([WS; w_x], Dir); ([WS; w_x; SPF], File (sp_content ex_fr ex_u1))].

Lemma ex_repair_continues :
  valid ex_fr w_ls w_fs1 w_t = false /\
  (exists f' s', repair_in ex_fr w_ls w_lb w_fs1 fresh [w_a; w_x] = (f', s', RCorrupt [w_a]) /\
                 valid ex_fr w_ls f' w_t = true) /\
  (exists f' s', repair_in ex_fr w_ls w_lb w_fs1 fresh [w_x; w_a] = (f', s', RCorrupt [w_a]) /\
                 valid ex_fr w_ls f' w_t = true).
Proof.
  split; [vm_compute; reflexivity|]. split.
  - pose (res := repair_in ex_fr w_ls w_lb w_fs1 fresh [w_a; w_x]).
    exists (fst (fst res)), (snd (fst res)). split; vm_compute; reflexivity.
  - pose (res := repair_in ex_fr w_ls w_lb w_fs1 fresh [w_x; w_a]).
    exists (fst (fst res)), (snd (fst res)). split; vm_compute; reflexivity.
Qed.

(* 2. a directory named md5("null") without a state point file: opening by id raises
      (before fix: ae33aa8 it returned the empty mapping) *)
Definition w_null : str := calc_id ex_fr JNull.
Definition w_fs2 : fs := [([DOTSIGNAC], Dir); ([WS], Dir); ([WS; w_null], Dir)].

Lemma ex_null_raises : exists s', open_sp_by_id ex_fr w_lb w_fs2 fresh w_null = (s', Err EJobsCorrupted).
Proof. vm_compute. eexists. reflexivity. Qed.

(* 3. directory x holds a copy of job a's file: repair reports x and does NOT keep x -> state point of a
      (before fix: 3837846 the session served it for open_job(id=x)) *)
Definition w_fs3 : fs :=
  [([DOTSIGNAC], Dir); ([WS], Dir);
   ([WS; w_a], Dir); ([WS; w_a; SPF], File (sp_content ex_fr ex_u0));
   ([WS; w_x], Dir); ([WS; w_x; SPF], File (sp_content ex_fr ex_u0))].

Lemma ex_no_poison :
  exists f' s', repair_in ex_fr w_ls w_lb w_fs3 fresh [w_x; w_a] = (f', s', RCorrupt [w_x]) /\
                alookup w_x (s_cache s') = None /\
                (exists s'', open_sp_by_id ex_fr w_lb f' s' w_x = (s'', Err EJobsCorrupted)).
Proof.
  pose (res := repair_in ex_fr w_ls w_lb w_fs3 fresh [w_x; w_a]).
  exists (fst (fst res)), (snd (fst res)).
  split; [vm_compute; reflexivity|]. split; [vm_compute; reflexivity|vm_compute; eexists; reflexivity].
Qed.

(* ================================================================ F. licence for the correspondence *)
From SV Require Import CorrC09.

Lemma intact_is_valid : forall c f i, intact c f i = Repair.valid (fr9 c) (ls9 c) f i.
Proof.
  intros c f i. unfold intact, decoded, Repair.valid. destruct (get f (spf i)) as [[x|]|]; auto.
Qed.

Lemma subset_s_refl_sym : forall a b, seteq_s a b = seteq_s b a.
Proof. intros a b. unfold seteq_s. apply andb_comm. Qed.

Lemma ck_same_sym : forall a b, ck_same a b = ck_same b a.
Proof.
  intros [|x|e] [|y|e']; simpl; auto.
  - rewrite subset_s_refl_sym, Nat.eqb_sym. reflexivity.
  - destruct e, e'; reflexivity.
Qed.

(* if the implementation agrees with the model on a case whose listed names are directories, the
   first clause of the oracle (check() names exactly the damaged jobs) holds on the implementation's answer *)
Theorem model_holds_check : forall c,
  (forall i, In i (c9_listing c) -> isdir (c9_fs c) (jdir i) = true) ->
  mismatch_C09 c = false ->
  ck_same (c9_check c) (expected_check c (c9_fs c) (c9_listing c)) = true.
Proof.
  intros c Hd H. unfold mismatch_C09, mismatch9 in H. apply negb_false_iff in H.
  repeat (apply andb_true_iff in H; destruct H as [H _]).
  rewrite ck_same_sym. unfold m_check in H.
  rewrite (check_exact (fr9 c) (ls9 c) (c9_fs c) (c9_listing c) Hd) in H.
  unfold expected_check.
  assert (E : filter (fun i => negb (intact c (c9_fs c) i)) (c9_listing c)
              = filter (fun i => negb (Repair.valid (fr9 c) (ls9 c) (c9_fs c) i)) (c9_listing c)).
  { apply filter_ext. intro i. rewrite intact_is_valid. reflexivity. }
  rewrite E. exact H.
Qed.

(* ---- non-vacuity of the restoration hypotheses on the witness project *)
Lemma NoSpDirs_of_short : forall f, (forall p, In (p, Dir) f -> (length p <= 2)%nat) -> NoSpDirs f.
Proof.
  intros f H j. split; intro E.
  - unfold spf in E. rewrite get_cons_path in E. apply lookup_In in E. apply H in E. simpl in E. lia.
  - unfold tmpf in E. rewrite get_cons_path in E. apply lookup_In in E. apply H in E. simpl in E. lia.
Qed.

Lemma w_fs1_hyps :
  WsOk w_fs1 /\ get w_fs1 (jdir w_x) = Some Dir /\ alookup w_x (s_cache (ensure_read w_fs1 fresh)) = None /\
  w_t <> w_x /\ ~ In w_t [w_a].
Proof.
  split; [split; [reflexivity|]|].
  - apply NoSpDirs_of_short. intros p H. unfold w_fs1 in H. cbn [In] in H.
    repeat (destruct H as [H|H]; [inversion H; subst; simpl; lia|]). contradiction.
  - split; [vm_compute; reflexivity|]. split; [vm_compute; reflexivity|].
    split; [vm_compute; discriminate|]. intros [H|[]]. revert H. vm_compute. discriminate.
Qed.
