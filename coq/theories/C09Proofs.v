(* C09Proofs.v — lemmas behind props/C09.v *)
From SV Require Import Base Json MD5 Canon FS Ws WsLemmas Cache CacheLemmas Repair C01Proofs C08Proofs.

Local Arguments calc_id : simpl never.

Section P.
  Variable frepr : fl -> str.
  Variable loads_s : list N -> option json.
  Variable loads_b : list N -> dec.

  Notation cid := (cid frepr).
  Notation sp_from_ws := (sp_from_ws frepr loads_s).
  Notation get_statepoint := (get_statepoint frepr loads_s).
  Notation sp_load := (sp_load frepr loads_b).
  Notation sp_load_view := (sp_load_view frepr loads_b).
  Notation jinit := (jinit frepr loads_b).
  Notation open_sp_by_id := (open_sp_by_id frepr loads_b).
  Notation valid := (valid frepr loads_s).
  Notation check_ids := (check_ids frepr loads_s).
  Notation check_in := (check_in frepr loads_s).
  Notation check := (check frepr loads_s).
  Notation repair_loop := (repair_loop frepr loads_s loads_b).
  Notation repair_in := (repair_in frepr loads_s loads_b).
  Notation sound := (sound frepr).
  Notation Inv := (Inv frepr).

  (* ================================================================ A. check() is exact *)
  Lemma sp_from_ws_valid_iff : forall f i, isdir f (jdir i) = true ->
    (valid f i = true -> exists v, sp_from_ws f true i = Ok v /\ cid v = i) /\
    (valid f i = false -> sp_from_ws f true i = Err EJobsCorrupted).
  Proof.
    intros f i Hd. unfold Repair.valid, Cache.sp_from_ws. rewrite Hd.
    destruct (get f (spf i)) as [[c|]|]; try (split; [discriminate|reflexivity]).
    destruct (loads_s (c_bytes c)) as [v|]; [|split; [discriminate|reflexivity]].
    simpl. destruct (str_eqb (Cache.cid frepr v) i) eqn:E; simpl.
    - split; [|discriminate]. intros _. exists v. split; auto. apply str_eqb_eq. exact E.
    - split; [discriminate|reflexivity].
  Qed.

  Lemma check_ids_exact : forall f ids, (forall i, In i ids -> isdir f (jdir i) = true) ->
    check_ids f ids = Ok (filter (fun i => negb (valid f i)) ids).
  Proof.
    induction ids as [|i r IH]; intro H; simpl; auto.
    destruct (sp_from_ws_valid_iff f i (H i (or_introl eq_refl))) as [H1 H2].
    rewrite (IH (fun j Hj => H j (or_intror Hj))).
    destruct (valid f i) eqn:Ev; simpl.
    - destruct (H1 eq_refl) as [v [E _]]. rewrite E. reflexivity.
    - rewrite (H2 eq_refl). reflexivity.
  Qed.

  (* check() names exactly the listed directories whose file is missing, undecodable, or decodes to a
     value whose canonical hash differs from the directory name; it passes iff there is none *)
  Theorem check_exact : forall f ids, (forall i, In i ids -> isdir f (jdir i) = true) ->
    check_in f ids = match filter (fun i => negb (valid f i)) ids with [] => CkOk | l => CkCorrupt l end.
  Proof.
    intros f ids H. unfold Repair.check_in. rewrite (check_ids_exact f ids H).
    destruct (filter (fun i => negb (valid f i)) ids); reflexivity.
  Qed.

  Lemma valid_false_iff : forall f i, valid f i = false <->
    (forall c, get f (spf i) <> Some (File c)) \/
    (exists c, get f (spf i) = Some (File c) /\
               (loads_s (c_bytes c) = None \/ exists v, loads_s (c_bytes c) = Some v /\ cid v <> i)).
  Proof.
    intros f i. unfold Repair.valid. destruct (get f (spf i)) as [[c|]|].
    - destruct (loads_s (c_bytes c)) as [v|] eqn:E.
      + split.
        * intro H. right. exists c. split; auto. right. exists v. split; auto. apply str_eqb_neq. exact H.
        * intros [H|[c' [Hc [H|[v' [Hv Hn]]]]]].
          -- exfalso. apply (H c). reflexivity.
          -- inversion Hc; subst. congruence.
          -- inversion Hc; subst. rewrite E in Hv. inversion Hv; subst. apply str_eqb_neq. exact Hn.
      + split; auto. intros _. right. exists c. auto.
    - split; auto. intros _. left. intros c. discriminate.
    - split; auto. intros _. left. intros c. discriminate.
  Qed.

  (* a job is reported iff its value changed: harmless rewrites (key order, white space, escapes — any text
     that decodes to the same JSON value up to key order) are not flagged, and a changed value is missed
     only through an MD5 collision of the two canonical texts *)
  Theorem damage_detected_iff_value_changed : forall f ids i c v0,
    (forall j, In j ids -> isdir f (jdir j) = true) -> In i ids ->
    get f (spf i) = Some (File c) -> cid v0 = i ->
    let reported := match check_in f ids with CkCorrupt l => In i l | _ => False end in
    (reported <-> (loads_s (c_bytes c) = None \/ exists v, loads_s (c_bytes c) = Some v /\ cid v <> i)) /\
    (forall v, loads_s (c_bytes c) = Some v -> norm v = norm v0 -> ~ reported) /\
    (forall v, loads_s (c_bytes c) = Some v -> ~ reported ->
       canon frepr v = canon frepr v0 \/
       (canon frepr v <> canon frepr v0 /\ md5_hex (canon frepr v) = md5_hex (canon frepr v0))).
  Proof.
    intros f ids i c v0 Hd Hi Hg Hv0 reported.
    assert (R : reported <-> valid f i = false).
    { unfold reported. rewrite (check_exact f ids Hd).
      destruct (filter (fun j => negb (valid f j)) ids) as [|x l] eqn:E.
      - split; [contradiction|]. intro Hv. assert (Hin : In i (filter (fun j => negb (valid f j)) ids)).
        { apply filter_In. split; auto. rewrite Hv. reflexivity. }
        rewrite E in Hin. contradiction.
      - rewrite <- E. rewrite filter_In. split; [intros [_ H]; apply negb_true_iff; exact H|].
        intro H. split; auto. rewrite H. reflexivity. }
    split; [|split].
    - rewrite R, valid_false_iff. split.
      + intros [H|[c' [Hc H]]]; [exfalso; apply (H c); exact Hg|]. rewrite Hg in Hc. inversion Hc; subst. exact H.
      + intro H. right. exists c. auto.
    - intros v Hv Hn Hr. apply R in Hr. unfold Repair.valid in Hr. rewrite Hg, Hv in Hr.
      apply str_eqb_neq in Hr. apply Hr. unfold Cache.cid in *. rewrite (norm_cid frepr v v0 Hn). exact Hv0.
    - intros v Hv Hr. apply id_equal_only_by_md5_collision.
      destruct (valid f i) eqn:Ev; [|exfalso; apply Hr, R; reflexivity].
      unfold Repair.valid in Ev. rewrite Hg, Hv in Ev. apply str_eqb_eq in Ev. unfold Cache.cid in *. congruence.
  Qed.

  (* ================================================================ B. opening by id *)
  (* statepoint() of a job opened by id, in a session whose caches are sound, either raises or returns a
     state point hashing to the (resolved) id — EXCEPT in one place: the loaded data is None (missing
     file) and the id is md5("null"), where the empty mapping is returned. *)
  Theorem open_by_id_characterised : forall f s i s' sp,
    Inv f s -> open_sp_by_id f s i = (s', Ok sp) ->
    exists m, (m = i \/ resolve f WSP i = inl m) /\
              (cid sp = m \/ (m = cid JNull /\ sp = JObj [] /\ sp_load f m = Ok JNull)).
  Proof.
    intros f s i s' sp H E. unfold Cache.open_sp_by_id, Cache.open_id in E.
    pose proof (ensure_read_sound frepr f s H) as H1.
    destruct (alookup i (s_cache (ensure_read f s))) as [x|] eqn:El.
    - unfold Cache.handle_sp in E. simpl in E. destruct (is_objb x); inversion E; subst.
      exists i. split; auto. left. apply alookup_In in El. apply H1 in El. exact El.
    - destruct (resolve f WSP i) as [m|e] eqn:Er; [|inversion E].
      unfold Cache.handle_sp in E. simpl in E.
      destruct (sp_load_view f m) as [[d v]|] eqn:Ev; inversion E; subst.
      exists m. split; auto. unfold Cache.sp_load_view in Ev.
      destruct (sp_load f m) as [d'|] eqn:Ed; [|discriminate].
      pose proof (sp_load_valid frepr loads_b f m d' Ed) as Hid.
      destruct d'; simpl in Ev; inversion Ev; subst; auto.
      right. split; [symmetry; exact Hid|]. split; auto.
  Qed.

  Theorem open_by_id_never_wrong_partial : forall f s i s' sp,
    Inv f s -> open_sp_by_id f s i = (s', Ok sp) ->
    (forall m, sp_load f m = Ok JNull -> False) ->
    exists m, (m = i \/ resolve f WSP i = inl m) /\ cid sp = m.
  Proof.
    intros f s i s' sp H E Hn. destruct (open_by_id_characterised f s i s' sp H E) as [m [Hm [Hc|[_ [_ Hl]]]]].
    - exists m. auto.
    - exfalso. eapply Hn; eauto.
  Qed.

End P.
