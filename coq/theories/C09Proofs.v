(* C09Proofs.v — lemmas behind props/C09.v *)
From SV Require Import Base Json MD5 Canon FS Ws WsLemmas Cache CacheLemmas Repair C01Proofs C08Proofs.

Local Arguments calc_id : simpl never.

Section P.
  Variable frepr : fl -> str.
  Variable loads_s : list N -> option json.
  Variable loads_b : list N -> dec.

  Notation cid := (cid frepr).
  Notation sp_from_ws := (sp_from_ws frepr loads_s).
  Notation get_statepoint := (get_statepoint frepr loads_s).
  Notation sp_load := (sp_load frepr loads_b).
  Notation sp_load_view := (sp_load_view frepr loads_b).
  Notation jinit := (jinit frepr loads_b).
  Notation open_sp_by_id := (open_sp_by_id frepr loads_b).
  Notation valid := (valid frepr loads_s).
  Notation check_ids := (check_ids frepr loads_s).
  Notation check_in := (check_in frepr loads_s).
  Notation check := (check frepr loads_s).
  Notation repair_loop := (repair_loop frepr loads_s loads_b).
  Notation repair_in := (repair_in frepr loads_s loads_b).
  Notation sound := (sound frepr).
  Notation Inv := (Inv frepr).

  (* ================================================================ A. check() is exact *)
  Lemma sp_from_ws_valid_iff : forall f i, isdir f (jdir i) = true ->
    (valid f i = true -> exists v, sp_from_ws f true i = Ok v /\ cid v = i) /\
    (valid f i = false -> sp_from_ws f true i = Err EJobsCorrupted).
  Proof.
    intros f i Hd. unfold Repair.valid, Cache.sp_from_ws. rewrite Hd.
    destruct (get f (spf i)) as [[c|]|]; try (split; [discriminate|reflexivity]).
    destruct (loads_s (c_bytes c)) as [v|]; [|split; [discriminate|reflexivity]].
    simpl. destruct (str_eqb (Cache.cid frepr v) i) eqn:E; simpl.
    - split; [|discriminate]. intros _. exists v. split; auto. apply str_eqb_eq. exact E.
    - split; [discriminate|reflexivity].
  Qed.

  Lemma check_ids_exact : forall f ids, (forall i, In i ids -> isdir f (jdir i) = true) ->
    check_ids f ids = Ok (filter (fun i => negb (valid f i)) ids).
  Proof.
    induction ids as [|i r IH]; intro H; simpl; auto.
    destruct (sp_from_ws_valid_iff f i (H i (or_introl eq_refl))) as [H1 H2].
    rewrite (IH (fun j Hj => H j (or_intror Hj))).
    destruct (valid f i) eqn:Ev; simpl.
    - destruct (H1 eq_refl) as [v [E _]]. rewrite E. reflexivity.
    - rewrite (H2 eq_refl). reflexivity.
  Qed.

  (* check() names exactly the listed directories whose file is missing, undecodable, or decodes to a
     value whose canonical hash differs from the directory name; it passes iff there is none *)
  Theorem check_exact : forall f ids, (forall i, In i ids -> isdir f (jdir i) = true) ->
    check_in f ids = match filter (fun i => negb (valid f i)) ids with [] => CkOk | l => CkCorrupt l end.
  Proof.
    intros f ids H. unfold Repair.check_in. rewrite (check_ids_exact f ids H).
    destruct (filter (fun i => negb (valid f i)) ids); reflexivity.
  Qed.

  Lemma valid_false_iff : forall f i, valid f i = false <->
    (forall c, get f (spf i) <> Some (File c)) \/
    (exists c, get f (spf i) = Some (File c) /\
               (loads_s (c_bytes c) = None \/ exists v, loads_s (c_bytes c) = Some v /\ cid v <> i)).
  Proof.
    intros f i. unfold Repair.valid. destruct (get f (spf i)) as [[c|]|].
    - destruct (loads_s (c_bytes c)) as [v|] eqn:E.
      + split.
        * intro H. right. exists c. split; auto. right. exists v. split; auto. apply str_eqb_neq. exact H.
        * intros [H|[c' [Hc [H|[v' [Hv Hn]]]]]].
          -- exfalso. apply (H c). reflexivity.
          -- inversion Hc; subst. congruence.
          -- inversion Hc; subst. rewrite E in Hv. inversion Hv; subst. apply str_eqb_neq. exact Hn.
      + split; auto. intros _. right. exists c. auto.
    - split; auto. intros _. left. intros c. discriminate.
    - split; auto. intros _. left. intros c. discriminate.
  Qed.

  (* a job is reported iff its value changed: harmless rewrites (key order, white space, escapes — any text
     that decodes to the same JSON value up to key order) are not flagged, and a changed value is missed
     only through an MD5 collision of the two canonical texts *)
  Theorem damage_detected_iff_value_changed : forall f ids i c v0,
    (forall j, In j ids -> isdir f (jdir j) = true) -> In i ids ->
    get f (spf i) = Some (File c) -> cid v0 = i ->
    let reported := match check_in f ids with CkCorrupt l => In i l | _ => False end in
    (reported <-> (loads_s (c_bytes c) = None \/ exists v, loads_s (c_bytes c) = Some v /\ cid v <> i)) /\
    (forall v, loads_s (c_bytes c) = Some v -> norm v = norm v0 -> ~ reported) /\
    (forall v, loads_s (c_bytes c) = Some v -> ~ reported ->
       canon frepr v = canon frepr v0 \/
       (canon frepr v <> canon frepr v0 /\ md5_hex (canon frepr v) = md5_hex (canon frepr v0))).
  Proof.
    intros f ids i c v0 Hd Hi Hg Hv0 reported.
    assert (R : reported <-> valid f i = false).
    { unfold reported. rewrite (check_exact f ids Hd).
      destruct (filter (fun j => negb (valid f j)) ids) as [|x l] eqn:E.
      - split; [contradiction|]. intro Hv. assert (Hin : In i (filter (fun j => negb (valid f j)) ids)).
        { apply filter_In. split; auto. rewrite Hv. reflexivity. }
        rewrite E in Hin. contradiction.
      - rewrite <- E. rewrite filter_In. split; [intros [_ H]; apply negb_true_iff; exact H|].
        intro H. split; auto. rewrite H. reflexivity. }
    split; [|split].
    - rewrite R, valid_false_iff. split.
      + intros [H|[c' [Hc H]]]; [exfalso; apply (H c); exact Hg|]. rewrite Hg in Hc. inversion Hc; subst. exact H.
      + intro H. right. exists c. auto.
    - intros v Hv Hn Hr. apply R in Hr. unfold Repair.valid in Hr. rewrite Hg, Hv in Hr.
      apply str_eqb_neq in Hr. apply Hr. unfold Cache.cid in *. rewrite (norm_cid frepr v v0 Hn). exact Hv0.
    - intros v Hv Hr. apply id_equal_only_by_md5_collision.
      destruct (valid f i) eqn:Ev; [|exfalso; apply Hr, R; reflexivity].
      unfold Repair.valid in Ev. rewrite Hg, Hv in Ev. apply str_eqb_eq in Ev. unfold Cache.cid in *. congruence.
  Qed.

  (* ================================================================ B. opening by id *)
  (* statepoint() of a job opened by id, in a session whose caches are sound, either raises or returns a
     state point hashing to the (resolved) id — EXCEPT in one place: the loaded data is None (missing
     file) and the id is md5("null"), where the empty mapping is returned. *)
  Theorem open_by_id_characterised : forall f s i s' sp,
    Inv f s -> open_sp_by_id f s i = (s', Ok sp) ->
    exists m, (m = i \/ resolve f WSP i = inl m) /\
              (cid sp = m \/ (m = cid JNull /\ sp = JObj [] /\ sp_load f m = Ok JNull)).
  Proof.
    intros f s i s' sp H E. unfold Cache.open_sp_by_id, Cache.open_id in E.
    pose proof (ensure_read_sound frepr f s H) as H1.
    destruct (alookup i (s_cache (ensure_read f s))) as [x|] eqn:El.
    - unfold Cache.handle_sp in E. simpl in E. destruct (is_objb x); inversion E; subst.
      exists i. split; auto. left. apply alookup_In in El. apply H1 in El. exact El.
    - destruct (resolve f WSP i) as [m|e] eqn:Er; [|inversion E].
      unfold Cache.handle_sp in E. simpl in E.
      destruct (sp_load_view f m) as [[d v]|] eqn:Ev; inversion E; subst.
      exists m. split; auto. unfold Cache.sp_load_view in Ev.
      destruct (sp_load f m) as [d'|] eqn:Ed; [|discriminate].
      pose proof (sp_load_valid frepr loads_b f m d' Ed) as Hid.
      destruct d'; simpl in Ev; inversion Ev; subst; auto.
  Qed.

  Theorem open_by_id_never_wrong_partial : forall f s i s' sp,
    Inv f s -> open_sp_by_id f s i = (s', Ok sp) ->
    (forall m, sp_load f m = Ok JNull -> False) ->
    exists m, (m = i \/ resolve f WSP i = inl m) /\ cid sp = m.
  Proof.
    intros f s i s' sp H E Hn. destruct (open_by_id_characterised f s i s' sp H E) as [m [Hm [Hc|[_ [_ Hl]]]]].
    - exists m. auto.
    - exfalso. eapply Hn; eauto.
  Qed.


  (* ================================================================ C. repair() touches state point files and
     directory names only *)
  (* a data path inside a job directory: anything but the state point file and the backend's temp name *)
  Definition data_rel (rel : path) : Prop :=
    rel <> [] /\ last rel [] <> SPF /\ last rel [] <> TMPPFX ++ SPF.

  (* [f'] holds the same documents and data files as [f], byte for byte, possibly under another job
     directory name; nothing outside the workspace changed *)
  Definition frame (f f' : fs) : Prop :=
    ws_only f f' /\
    (forall i rel c, data_rel rel -> get f ([WS; i] ++ rel) = Some (File c) ->
       exists i', get f' ([WS; i'] ++ rel) = Some (File c)) /\
    (forall i' rel c, data_rel rel -> get f' ([WS; i'] ++ rel) = Some (File c) ->
       exists i, get f ([WS; i] ++ rel) = Some (File c)).

  Lemma frame_refl : forall f, frame f f.
  Proof. intro f. split; [apply ws_only_refl|]. split; eauto. Qed.

  Lemma frame_trans : forall a b c, frame a b -> frame b c -> frame a c.
  Proof.
    intros a b c [W1 [F1 G1]] [W2 [F2 G2]]. split; [eapply ws_only_trans; eauto|]. split.
    - intros i rel x Hd H. destruct (F1 _ _ _ Hd H) as [i1 H1]. eauto.
    - intros i rel x Hd H. destruct (G2 _ _ _ Hd H) as [i1 H1]. eauto.
  Qed.

  Lemma strip_jdir : forall b i rel, strip (jdir b) ([WS; i] ++ rel) = if str_eqb b i then Some rel else None.
  Proof. intros. simpl. reflexivity. Qed.

  Lemma data_path_neq_jdir : forall i j rel, rel <> [] -> [WS; i] ++ rel <> jdir j.
  Proof. intros i j rel H E. destruct rel; [contradiction|]. discriminate. Qed.

  Lemma frame_rename : forall f a b f', rename f (jdir a) (jdir b) = FOk f' -> frame f f'.
  Proof.
    intros f a b f' H.
    assert (W : ws_only f f') by (eapply rename_ws_only; eauto; reflexivity).
    destruct (path_eqb (jdir a) (jdir b)) eqn:Eab.
    { assert (f' = f).
      { unfold rename in H. destruct (get f (jdir a)); [|discriminate].
        destruct (get f (parent (jdir b))) as [[c|]|]; try discriminate. rewrite Eab in H. inversion H; reflexivity. }
      subst. apply frame_refl. }
    apply path_eqb_neq in Eab.
    destruct (get f (jdir a)) as [[c0|]|] eqn:Ea.
    - (* a regular file bearing an id-like name *)
      pose proof (fun q => get_rename_file f (jdir a) (jdir b) c0 f' q Ea Eab H) as G.
      assert (U : forall i rel, rel <> [] -> get f' ([WS; i] ++ rel) = get f ([WS; i] ++ rel)).
      { intros i rel Hr. rewrite G.
        assert (E1 : path_eqb ([WS; i] ++ rel) (jdir b) = false) by (apply path_eqb_neq, data_path_neq_jdir; auto).
        assert (E2 : path_eqb ([WS; i] ++ rel) (jdir a) = false) by (apply path_eqb_neq, data_path_neq_jdir; auto).
        rewrite E1, E2. reflexivity. }
      split; [exact W|]. split; intros i rel c [Hr _] Hg; exists i; [rewrite U|rewrite <- U]; auto.
    - (* a directory *)
      pose proof (fun q => get_rename_dir f (jdir a) (jdir b) f' q Ea Eab H) as G.
      destruct (rename_dir_ok_dest f (jdir a) (jdir b) f' Ea Eab H) as [_ Hch].
      assert (Hab : a <> b) by (intro E; subst; apply Eab; reflexivity).
      assert (U : forall i rel, rel <> [] ->
                get f' ([WS; i] ++ rel) = if str_eqb b i then get f ([WS; a] ++ rel)
                                          else if str_eqb a i then None else get f ([WS; i] ++ rel)).
      { intros i rel Hr. rewrite G, strip_jdir. destruct (str_eqb b i); [reflexivity|].
        unfold under. rewrite strip_jdir. destruct (str_eqb a i); reflexivity. }
      assert (Hempty : forall rel, rel <> [] -> get f ([WS; b] ++ rel) = None).
      { intros rel Hr. destruct rel as [|n r]; [contradiction|].
        change ([WS; b] ++ n :: r) with (jdir b ++ n :: r). rewrite get_app_cons.
        apply has_children_false. exact Hch. }
      split; [exact W|]. split.
      + intros i rel c [Hr _] Hg. destruct (str_eqb a i) eqn:Eai.
        * apply str_eqb_eq in Eai. subst i. exists b. rewrite U by auto. rewrite str_eqb_refl. exact Hg.
        * destruct (str_eqb b i) eqn:Ebi.
          -- apply str_eqb_eq in Ebi. subst i. rewrite Hempty in Hg by auto. discriminate.
          -- exists i. rewrite U by auto. rewrite Ebi, Eai. exact Hg.
      + intros i rel c [Hr _] Hg. rewrite U in Hg by auto. destruct (str_eqb b i).
        * exists a. exact Hg.
        * destruct (str_eqb a i); [discriminate|]. exists i. exact Hg.
    - unfold rename in H. rewrite Ea in H. discriminate.
  Qed.

  Lemma frame_makedirs : forall f i f', makedirs f (jdir i) = FOk f' -> frame f f'.
  Proof.
    intros f i f' H. split; [eapply makedirs_ws_only; eauto|]. split.
    - intros j rel c _ Hg. exists j. eapply makedirs_keeps; eauto.
    - intros j rel c _ Hg. exists j. destruct (get f ([WS; j] ++ rel)) as [x|] eqn:E.
      + rewrite (makedirs_keeps _ _ _ _ _ H E) in Hg. exact Hg.
      + unfold makedirs in H. destruct (makedirs_from_new _ _ _ _ _ _ H E) as [G|G]; rewrite G in Hg; discriminate.
  Qed.

  Lemma frame_json_write : forall f i v f', json_write frepr f (spf i) v = FOk f' -> frame f f'.
  Proof.
    intros f i v f' H. split; [eapply json_write_ws_only; eauto|].
    assert (U : forall j rel, data_rel rel -> get f' ([WS; j] ++ rel) = get f ([WS; j] ++ rel)).
    { intros j rel [Hr [H1 H2]]. rewrite (json_write_spf frepr f i v f' H).
      assert (E1 : path_eqb ([WS; j] ++ rel) (spf i) = false).
      { apply path_eqb_neq. intro E. unfold spf in E. simpl in E. inversion E; subst. apply H1. reflexivity. }
      assert (E2 : path_eqb ([WS; j] ++ rel) (tmpf i) = false).
      { apply path_eqb_neq. intro E. unfold tmpf in E. simpl in E. inversion E; subst. apply H2. reflexivity. }
      rewrite E1, E2. reflexivity. }
    split; intros j rel c Hd Hg; exists j; [rewrite U|rewrite <- U]; auto.
  Qed.

  Lemma frame_jinit : forall force f s sp f' s' r, jinit force f s sp = (f', s', r) -> frame f f'.
  Proof.
    intros force f s sp f' s' r H. unfold Cache.jinit in H.
    destruct (is_objb sp); simpl in H.
    - destruct (sp_load_view f (Cache.cid frepr sp)); [inversion H; subst; apply frame_refl|].
      destruct (makedirs f (jdir (Cache.cid frepr sp))) as [f1|] eqn:Em; [|inversion H; subst; apply frame_refl].
      pose proof (frame_makedirs _ _ _ Em) as W1.
      destruct (force || negb (isfile f1 (spf (Cache.cid frepr sp)))).
      + destruct (json_write frepr f1 (spf (Cache.cid frepr sp)) sp) as [f2|] eqn:Ew; [|inversion H; subst; auto].
        pose proof (frame_json_write _ _ _ _ Ew) as W2.
        destruct (sp_load_view f2 (Cache.cid frepr sp)) as [[d v]|]; inversion H; subst; eapply frame_trans; eauto.
      + destruct (sp_load_view f1 (Cache.cid frepr sp)) as [[d v]|]; inversion H; subst; auto.
    - destruct (makedirs f (jdir (Cache.cid frepr sp))) eqn:Em; inversion H; subst; [|apply frame_refl].
      eapply frame_makedirs; eauto.
  Qed.

  Lemma frame_loop : forall ids f s corrupted f' s' r,
    repair_loop f s ids corrupted = (f', s', r) -> frame f f'.
  Proof.
    induction ids as [|i rest IH]; intros f s corrupted f' s' r H; simpl in H.
    - inversion H; subst. apply frame_refl.
    - destruct (get_statepoint f s false i) as [s1 [sp|e]] eqn:Eg.
      + set (ci := Cache.cid frepr sp) in *.
        destruct (if str_eqb ci i then Some f
                  else match rename f (jdir i) (jdir ci) with FOk f1 => Some f1 | FErr _ => None end) as [f1|] eqn:Em.
        * assert (W1 : frame f f1).
          { destruct (str_eqb ci i); [inversion Em; subst; apply frame_refl|].
            destruct (rename f (jdir i) (jdir ci)) as [g|] eqn:Er; inversion Em; subst. eapply frame_rename; eauto. }
          assert (TAIL : forall f' s' r,
                    match jinit false f1 s1 sp with
                    | (f2, s2, Ok _) => repair_loop f2 s2 rest corrupted
                    | (f2, s2, Err _) =>
                        match jinit true f2 s2 sp with
                        | (f3, s3, Ok _) => repair_loop f3 s3 rest corrupted
                        | (f3, s3, Err _) => repair_loop f3 s3 rest (corrupted ++ [i])
                        end
                    end = (f', s', r) -> frame f f').
          { intros g' t' r' E.
            destruct (jinit false f1 s1 sp) as [[f2 s2] [u|e]] eqn:E1.
            - eapply frame_trans; [exact W1|]. eapply frame_trans; [eapply frame_jinit; eauto|]. eapply IH; eauto.
            - destruct (jinit true f2 s2 sp) as [[f3 s3] [u|e']] eqn:E2;
                (eapply frame_trans; [exact W1|]; eapply frame_trans; [eapply frame_jinit; eauto|];
                 eapply frame_trans; [eapply frame_jinit; eauto|]; eapply IH; eauto). }
          destruct sp; try (eapply TAIL; exact H). inversion H; subst. exact W1.
        * eapply IH; eauto.
      + destruct e; try (inversion H; subst; apply frame_refl). eapply IH; eauto.
  Qed.

  Theorem repair_frame : forall f s ids f' s' r, repair_in f s ids = (f', s', r) -> frame f f'.
  Proof. intros f s ids f' s' r H. unfold Repair.repair_in in H. eapply frame_loop; eauto. Qed.

End P.
