(* CorrC07.v — observational form of C07 (query front ends, cursors and groupby agree with find_jobs). *)
From SV Require Import Base Json PyVal Query Front CorrC06.

Inductive spelling :=
| SpMapping (f : json)                 (* a Python mapping passed to find_jobs *)
| SpTokens (toks : list str).          (* command-line tokens through parse_filter_arg + _find_job_ids *)

Inductive gobs :=
| GObsGroups (g : list (json * list str))
| GObsExn (e : exn).

Inductive case_C07 :=
| CaseSpell (jobs : list job) (regex : list ((str * str) * bool))
            (floats : list (str * fl)) (jsons : list (str * json))      (* float() and json.loads oracles *)
            (base : json) (variants : list (spelling * obs6))             (* what each spelling returned *)
| CaseCursor (jobs : list job) (regex : list ((str * str) * bool)) (flt : json)
             (len : nat) (listed : list str) (by_index : list (option str))     (* cursor[i] for i < len *)
             (slices : list (((option Z * option Z) * Z) * list str))  (* (start, stop, step) -> ids of cursor[start:stop:step] *)
             (contains : list (str * bool))                                (* job id -> (job in cursor) *)
             (outsiders : list bool)                                       (* uninitialised jobs: in cursor? *)
| CaseGroup (jobs : list job) (regex : list ((str * str) * bool)) (order : list str)
            (flt : json) (single : bool) (keys : list str) (default : option json) (o : gobs)
            (cursor_ids : option (list str))    (* what iterating the same cursor yields; None: it raises *)
(* groupby(key) with key None (label = the job id) or a callable: the label function is the caller's code, not
   signac's; the harness applies it to a fresh handle of every job by itself and hands the table id -> label over *)
| CaseGroupFn (jobs : list job) (regex : list ((str * str) * bool)) (order : list str)
              (flt : json) (table : list (str * json)) (o : gobs) (cursor_ids : option (list str)).

Fixpoint tab_lookup {A} (t : list (str * A)) (k : str) : option A :=
  match t with
  | [] => None
  | (k', v) :: r => if str_eqb k k' then Some v else tab_lookup r k
  end.

Definition run_spelling regex floats jsons (jobs : list job) (s : spelling) : result (list str) :=
  match s with
  | SpMapping f => find_job_ids (regex_lookup regex) isclose_dy FUEL jobs f
  | SpTokens toks =>
      bind (parse_filter_arg (tab_lookup floats) (tab_lookup jsons) toks) (fun of =>
        match of with
        | None => Ok (map j_id jobs)
        | Some f => find_job_ids (regex_lookup regex) isclose_dy FUEL jobs f
        end)
  end.

Definition obs_matches (m : result (list str)) (o : obs6) : bool :=
  match m, o with
  | Ok a, ObsIds b => set_eqb a b
  | Err e, ObsExn e' => exn_eqb e e'
  | _, _ => false
  end.

Definition obs_same (a b : obs6) : bool :=
  match a, b with
  | ObsIds x, ObsIds y => set_eqb x y
  | ObsExn e, ObsExn e' => exn_eqb e e'
  | _, _ => false
  end.

Fixpoint nodup_str (l : list str) : bool :=
  match l with [] => true | x :: r => negb (str_mem x r) && nodup_str r end.

(* Python's list slicing l[start:stop:step], step <> 0 (PySlice_AdjustIndices) *)
Definition slice_bounds (len step : Z) (start stop : option Z) : Z * Z :=
  let lower := if (step <? 0)%Z then (-1)%Z else 0%Z in
  let upper := if (step <? 0)%Z then (len - 1)%Z else len in
  let norm (x : Z) := if (x <? 0)%Z then Z.max (x + len) lower else Z.min x upper in
  (match start with None => if (step <? 0)%Z then upper else lower | Some x => norm x end,
   match stop with None => if (step <? 0)%Z then lower else upper | Some x => norm x end).

Fixpoint take_idx {A} (fuel : nat) (l : list A) (i e step : Z) : list A :=
  match fuel with
  | O => []
  | Datatypes.S f =>
      if (if (0 <? step)%Z then (i <? e)%Z else (e <? i)%Z) then
        match nth_error l (Z.to_nat i) with
        | Some x => x :: take_idx f l (i + step)%Z e step
        | None => []
        end
      else []
  end.

Definition py_slice {A} (l : list A) (start stop : option Z) (step : Z) : list A :=
  let '(s, e) := slice_bounds (Z.of_nat (length l)) step start stop in
  take_idx (length l) l s e step.

(* reference data for groupby: the job's own value under a (namespace-prefixed, dotted) key *)
Definition gb_own_value (j : job) (key : str) : option json :=
  if gb_is_doc_key key then
    match j_doc j with
    | Some d => lookup_path d (split_on dot (gb_strip_prefix key))
    | None => None
    end
  else lookup_path (j_sp j) (split_on dot (gb_strip_prefix key)).

Definition gb_one (default : option json) (j : job) (k : str) : option json :=
  match gb_own_value j k, default with
  | Some v, _ => Some v
  | None, Some d => Some d
  | None, None => None
  end.

Fixpoint gb_many (default : option json) (j : job) (ks : list str) : option (list json) :=
  match ks with
  | [] => Some []
  | k :: r => match gb_one default j k, gb_many default j r with
              | Some v, Some vs => Some (v :: vs)
              | _, _ => None
              end
  end.

Definition gb_expected_label (single : bool) (keys : list str) (default : option json) (j : job) : option json :=
  if single then gb_one default j (hd [] keys)
  else match gb_many default j keys with Some vs => Some (JArr vs) | None => None end.

(* a label component taken from a job document that is a list or mapping is a synced collection
   object, which Python cannot order *)
Definition doc_container_label (keys : list str) (j : job) : bool :=
  existsb (fun k => gb_is_doc_key k &&
                    match gb_own_value j k with Some (JArr _) | Some (JObj _) => true | _ => false end) keys.

(* jobs the cursor selects, by the per-job reference evaluator of C06 *)
Definition ref_selected regex (jobs : list job) (flt : json) : option (list job) :=
  (fix go (js : list job) : option (list job) :=
     match js with
     | [] => Some []
     | j :: r =>
         match job_matches (regex_lookup regex) isclose_dy true FUEL flt j, go r with
         | Ok b, Some rest => Some (if b then j :: rest else rest)
         | _, _ => None
         end
     end) jobs.

Definition well_typed_filter regex (jobs : list job) (f : json) : bool :=
  forallb (fun j => match job_matches (regex_lookup regex) isclose_dy false FUEL f j with Ok _ => true | Err _ => false end)
          ({| j_id := []; j_sp := JObj []; j_doc := None |} :: jobs).

Definition labels_orderable (labs : list json) : bool :=
  Nat.leb (length labs) 1 || all_pairs_orderable labs.

(* ---------------- model vs implementation ---------------- *)
Definition groups_eqb (a b : list (json * list str)) : bool :=
  Nat.eqb (length a) (length b) &&
  forallb (fun g => existsb (fun h => py_eq (fst g) (fst h) && set_eqb (snd g) (snd h)) b) a.

(* groupby by key None / by a callable: no pre-filter, every selected job is labelled by the table, then
   sorted(..., key=label) and itertools.groupby as for keys (the generic theorems on group_adjacent / sort_labeled
   of props/C07.v are stated for an arbitrary labelled list and cover this case as they stand) *)
Definition groupby_fn_model regex (jobs : list job) (order : list str) (flt : json) (table : list (str * json)) : gb_result :=
  match find_job_ids (regex_lookup regex) isclose_dy FUEL jobs flt with
  | Err e => GbErr e
  | Ok sel =>
      let seq := filter (fun i => mem i sel) order in
      let ls := flat_map (fun i => match tab_lookup table i with Some l => [(l, i)] | None => [] end) seq in
      if Nat.leb (length ls) 1 || all_pairs_orderable (map fst ls)
      then GbGroups (group_adjacent (sort_labeled ls) None)
      else GbUnsortable
  end.

Fixpoint labels_distinct (l : list json) : bool :=
  match l with
  | [] => true
  | x :: r => negb (existsb (py_eq x) r) && labels_distinct r
  end.

Definition mismatch_C07 (c : case_C07) : bool :=
  match c with
  | CaseSpell jobs regex floats jsons base variants =>
      negb (forallb (fun v => obs_matches (run_spelling regex floats jsons jobs (fst v)) (snd v)) variants)
  | CaseCursor jobs regex flt len listed by_index slices contains outsiders =>
      match find_job_ids (regex_lookup regex) isclose_dy FUEL jobs flt with
      | Ok ids => negb (set_eqb ids listed)
      | Err _ => true
      end
  | CaseGroup jobs regex order flt single keys default o _ =>
      match groupby_model (regex_lookup regex) isclose_dy FUEL jobs order flt single keys default, o with
      | GbGroups g, GObsGroups g' => negb (groups_eqb g g')
      | GbUnsortable, GObsGroups _ => false
      | GbUnsortable, GObsExn e => negb (exn_eqb e ETypeError)
      | GbErr e, GObsExn e' => negb (exn_eqb e e')
      | _, _ => true
      end
  | CaseGroupFn jobs regex order flt table o _ =>
      match groupby_fn_model regex jobs order flt table, o with
      | GbGroups g, GObsGroups g' => negb (groups_eqb g g')
      | GbUnsortable, GObsGroups _ => false
      | GbUnsortable, GObsExn e => negb (exn_eqb e ETypeError)
      | GbErr e, GObsExn e' => negb (exn_eqb e e')
      | _, _ => true
      end
  end.

(* ---------------- the property as an oracle on the implementation's observation ---------------- *)
Definition holds_C07 (c : case_C07) : bool :=
  match c with
  | CaseSpell jobs regex floats jsons base variants =>
      (* all equivalent spellings of a filter that is well-typed on this corpus select the same jobs
         (for an ill-typed filter the evaluation order, which spellings may change, decides whether and
         which exception is raised: no claim) *)
      if negb (well_typed_filter regex jobs base) then true
      else
        match variants with
        | [] => true
        | (_, o0) :: r =>
            match o0 with ObsIds _ => true | ObsExn _ => false end &&
            forallb (fun v => obs_same o0 (snd v)) r
        end
  | CaseCursor jobs regex flt len listed by_index slices contains outsiders =>
      Nat.eqb len (length listed) && nodup_str listed &&
      list_eqb (fun a b => match a, b with Some x, Some y => str_eqb x y | None, None => true | _, _ => false end)
               by_index (map Some listed) &&
      forallb (fun sl => match fst sl with
                         | (st, sp, step) => list_eqb str_eqb (snd sl) (py_slice listed st sp step)
                         end) slices &&
      forallb (fun jc => Bool.eqb (snd jc) (mem (fst jc) listed)) contains &&
      forallb (fun j => str_mem (j_id j) (map fst contains)) jobs &&
      forallb negb outsiders
  | CaseGroup jobs regex order flt single keys default o cursor_ids =>
      (* "partitions exactly the jobs the cursor selects": the selection is what iterating the cursor
         yields (whether THAT is the right set is C06's claim, not C07's) *)
      match option_map (fun ids => filter (fun j => str_mem (j_id j) ids) jobs) cursor_ids with
      | None => true                                   (* the cursor itself raises: no claim *)
      | Some sel =>
          let members := filter (fun j => match gb_expected_label single keys default j with
                                          | Some _ => true | None => false end) sel in
          let labs := flat_map (fun j => match gb_expected_label single keys default j with
                                         | Some l => [l] | None => [] end) members in
          if negb (labels_orderable labs) || (Nat.ltb 1 (length members) && existsb (doc_container_label keys) members)
          then true                                    (* labels must be sortable: no claim *)
          else
            match o with
            | GObsExn _ => false
            | GObsGroups g =>
                (* union = members, groups disjoint *)
                set_eqb (flat_map snd g) (map j_id members) &&
                nodup_str (flat_map snd g) &&
                (* every member's own value equals its group's label *)
                forallb (fun grp =>
                           forallb (fun i =>
                                      match find (fun j => str_eqb (j_id j) i) members with
                                      | Some j => match gb_expected_label single keys default j with
                                                  | Some l => py_eq l (fst grp)
                                                  | None => false
                                                  end
                                      | None => false
                                      end) (snd grp)
                           && negb (match snd grp with [] => true | _ => false end)) g &&
                (* labels pairwise distinct *)
                (fix distinct (l : list json) : bool :=
                   match l with
                   | [] => true
                   | x :: r => negb (existsb (py_eq x) r) && distinct r
                   end) (map fst g)
            end
      end
  | CaseGroupFn jobs regex order flt table o cursor_ids =>
      match cursor_ids with
      | None => true                                   (* the cursor itself raises: no claim *)
      | Some ids =>
          let labs := flat_map (fun i => match tab_lookup table i with Some l => [l] | None => [] end) ids in
          if negb (labels_orderable labs) then true    (* labels must be sortable: no claim *)
          else
            match o with
            | GObsExn _ => false
            | GObsGroups g =>
                (* every selected job in exactly one group *)
                set_eqb (flat_map snd g) ids && nodup_str (flat_map snd g) &&
                (* a group's label equals the function's value on each member; no empty group *)
                forallb (fun grp =>
                           forallb (fun i => match tab_lookup table i with
                                             | Some l => py_eq l (fst grp)
                                             | None => false
                                             end) (snd grp)
                           && negb (match snd grp with [] => true | _ => false end)) g &&
                labels_distinct (map fst g)
            end
      end
  end.

Definition violation_C07 (c : case_C07) : bool := negb (holds_C07 c).

Definition known_tag_C07 (c : case_C07) : N := 0%N.

Fixpoint known_aux07 (cs : list case_C07) (i : N) : list N :=
  match cs with
  | [] => []
  | c :: r => let t := known_tag_C07 c in
              if N.eqb t 0 then known_aux07 r (N.succ i) else (i * 100 + t)%N :: known_aux07 r (N.succ i)
  end.

Definition mismatches_C07 (cs : list case_C07) : list N := indices_where mismatch_C07 cs.
Definition violations_C07 (cs : list case_C07) : list N := indices_where violation_C07 cs.
Definition known_C07 (cs : list case_C07) : list N := known_aux07 cs 0%N.
