(* WsNames.v — file-name constants of the signac workspace as code-point lists. *)
From SV Require Import Base.
From Coq Require Import String Ascii.

Definition str_of_string (s : string) : str := List.map N_of_ascii (list_ascii_of_string s).

Definition WS : str := Eval compute in str_of_string "workspace".
Definition SPF : str := Eval compute in str_of_string "signac_statepoint.json".
Definition SPT : str := Eval compute in str_of_string "signac_statepoint.json~".
Definition DOCF : str := Eval compute in str_of_string "signac_job_document.json".
Definition TMPPFX : str := Eval compute in str_of_string "._TMP_".
Definition DOTSIG : str := Eval compute in str_of_string ".signac".
Definition CACHEFN : str := Eval compute in str_of_string "statepoint_cache.json.gz".
Definition CACHETMPFN : str := Eval compute in str_of_string "statepoint_cache.json.gz~".
