(* CacheLemmas.v — facts about Cache.v shared by the proofs of C08 and C09: association-list
   bookkeeping, the footprint of every operation on the file system, and cache soundness. *)
From SV Require Import Base Json MD5 Canon FS Ws WsLemmas Cache.

(* ------------------------------------------------------------------ association lists *)
Lemma In_aset : forall A (i : str) (v : A) c k x, In (k, x) (aset i v c) -> (k, x) = (i, v) \/ In (k, x) c.
Proof.
  induction c as [|[k' v'] c IH]; simpl; intros k x H.
  - destruct H as [H|[]]. auto.
  - destruct (str_eqb i k') eqn:E.
    + apply str_eqb_eq in E. subst k'. destruct H as [H|H]; auto.
    + destruct H as [H|H]; auto. destruct (IH _ _ H); auto.
Qed.

Lemma In_aremove : forall A (i : str) (c : list (str * A)) p, In p (aremove i c) -> In p c.
Proof.
  induction c as [|[k' v'] c IH]; simpl; intros p H; auto.
  destruct (str_eqb i k'); [right; auto|]. destruct H; auto.
Qed.

Lemma In_aremove_all : forall ks (c : cache) p, In p (aremove_all ks c) -> In p c.
Proof.
  induction ks as [|k ks IH]; simpl; intros c p H; auto.
  apply IH in H. eapply In_aremove; eauto.
Qed.

Lemma keys_aset : forall A (i : str) (v : A) c k, In k (map fst (aset i v c)) <-> k = i \/ In k (map fst c).
Proof.
  induction c as [|[k' v'] c IH]; simpl; intro k.
  - split; intros [H|[]]; auto.
  - destruct (str_eqb i k') eqn:E; simpl.
    + apply str_eqb_eq in E. subst k'. split; [intros [H|H]; auto | intros [H|[H|H]]; auto].
    + rewrite IH. tauto.
Qed.

Lemma NoDup_keys_aset : forall A (i : str) (v : A) c, NoDup (map fst c) -> NoDup (map fst (aset i v c)).
Proof.
  induction c as [|[k' v'] c IH]; simpl; intro H.
  - constructor; [intros []|constructor].
  - inversion H; subst. destruct (str_eqb i k') eqn:E; simpl.
    + constructor; auto.
    + constructor; auto. rewrite keys_aset. intros [->|Hin]; auto.
      rewrite str_eqb_refl in E. discriminate.
Qed.

Lemma keys_aremove : forall A (i : str) (c : list (str * A)) k,
  In k (map fst (aremove i c)) <-> k <> i /\ In k (map fst c).
Proof.
  induction c as [|[k' v'] c IH]; simpl; intro k; [tauto|].
  destruct (str_eqb i k') eqn:E.
  - apply str_eqb_eq in E. subst k'. rewrite IH. split; [tauto|]. intros [Hne [H|H]]; [congruence|auto].
  - apply str_eqb_neq in E. simpl. rewrite IH. split.
    + intros [H|[H1 H2]]; [subst; auto|auto].
    + intros [Hne [H|H]]; auto.
Qed.

Lemma NoDup_keys_aremove : forall A (i : str) (c : list (str * A)), NoDup (map fst c) -> NoDup (map fst (aremove i c)).
Proof.
  induction c as [|[k' v'] c IH]; simpl; intro H; auto.
  inversion H; subst. destruct (str_eqb i k'); auto. simpl. constructor; auto.
  rewrite keys_aremove. tauto.
Qed.

Lemma keys_aremove_all : forall ks (c : cache) k,
  In k (map fst (aremove_all ks c)) <-> ~ In k ks /\ In k (map fst c).
Proof.
  induction ks as [|x ks IH]; simpl; intros c k; [tauto|].
  rewrite IH, keys_aremove. split.
  - intros [H1 [H2 H3]]. split; [|exact H3]. intros [E|E]; [congruence|auto].
  - intros [H1 H2]. split; [tauto|]. split; [|exact H2]. intro E. subst. auto.
Qed.

Lemma NoDup_keys_aremove_all : forall ks (c : cache), NoDup (map fst c) -> NoDup (map fst (aremove_all ks c)).
Proof.
  induction ks as [|x ks IH]; simpl; intros c H; auto. apply IH. apply NoDup_keys_aremove. exact H.
Qed.

Lemma keys_dict_upd : forall (new c : cache) k,
  In k (map fst (dict_upd c new)) <-> In k (map fst c) \/ In k (map fst new).
Proof.
  unfold dict_upd. induction new as [|[i v] new IH]; simpl; intros c k; [tauto|].
  rewrite IH, keys_aset. split; [intros [[H|H]|H]|intros [H|[H|H]]]; subst; auto.
Qed.

Lemma NoDup_keys_dict_upd : forall (new c : cache), NoDup (map fst c) -> NoDup (map fst (dict_upd c new)).
Proof.
  unfold dict_upd. induction new as [|[i v] new IH]; simpl; intros c H; auto.
  apply IH. apply NoDup_keys_aset. exact H.
Qed.

Lemma In_dict_upd : forall (new c : cache) p, In p (dict_upd c new) -> In p c \/ In p new.
Proof.
  unfold dict_upd. induction new as [|[i v] new IH]; simpl; intros c p H; auto.
  apply IH in H. destruct H as [H|H]; auto. destruct p as [k x].
  apply In_aset in H. destruct H as [H|H]; auto.
Qed.

Lemma subset_s_spec : forall a b, subset_s a b = true <-> (forall x, In x a -> In x b).
Proof.
  intros a b. unfold subset_s. rewrite forallb_forall. split; intros H x Hx.
  - apply str_mem_In. auto.
  - apply str_mem_In. auto.
Qed.

Lemma seteq_s_spec : forall a b, seteq_s a b = true <-> (forall x, In x a <-> In x b).
Proof.
  intros a b. unfold seteq_s. rewrite andb_true_iff, !subset_s_spec. split.
  - intros [H1 H2] x. split; auto.
  - intro H. split; intros x Hx; apply H; auto.
Qed.

Lemma filter_nil_iff : forall A (p : A -> bool) l, filter p l = [] <-> (forall x, In x l -> p x = false).
Proof.
  induction l as [|x l IH]; simpl; [tauto|].
  destruct (p x) eqn:E.
  - split; [discriminate|]. intro H. rewrite (H x) in E by auto. discriminate.
  - rewrite IH. split; intros H y; [intros [->|Hy]; auto|auto].
Qed.

Lemma alookup_In_keys : forall A (k : str) (l : list (str * A)), In k (map fst l) -> exists v, alookup k l = Some v.
Proof.
  intros A k l H. destruct (alookup k l) eqn:E; eauto.
  apply alookup_None_notin in E. contradiction.
Qed.

(* ------------------------------------------------------------------ concrete paths *)
Definition tmpf (i : str) : path := [WS; i; TMPPFX ++ SPF].

Lemma tmp_of_spf : forall i, tmp_of (spf i) = tmpf i.
Proof. reflexivity. Qed.

Lemma tmpf_neq_spf : forall i, tmpf i <> spf i.
Proof. intros i E. unfold tmpf, spf in E. inversion E. Qed.

Lemma WS_neq_DOT : WS <> DOTSIGNAC.
Proof. discriminate. Qed.

Lemma under_WS_cachep : under [WS] CACHEP = false.
Proof. reflexivity. Qed.
Lemma under_WS_cachetmp : under [WS] CACHETMP = false.
Proof. reflexivity. Qed.

Lemma under_WS_cons : forall q, under [WS] (WS :: q) = true.
Proof. intro q. reflexivity. Qed.

(* [f'] differs from [f] only below the workspace directory *)
Definition ws_only (f f' : fs) : Prop := forall q, under [WS] q = false -> get f' q = get f q.

Lemma ws_only_refl : forall f, ws_only f f.
Proof. intros f q _. reflexivity. Qed.

Lemma ws_only_trans : forall a b c, ws_only a b -> ws_only b c -> ws_only a c.
Proof. intros a b c H1 H2 q Hq. rewrite H2, H1; auto. Qed.

Lemma not_under_neq : forall p q, under [WS] q = false -> under [WS] p = true -> q <> p.
Proof. intros p q H1 H2 E. subst. congruence. Qed.

Lemma under_WS_prefix : forall q p, under [WS] q = false -> q <> [] -> under [WS] p = true -> under q p = false.
Proof.
  intros q p Hq Hq0 Hp. destruct (under q p) eqn:E; auto.
  apply under_spec in E. destruct E as [r ->]. apply under_spec in Hp. destruct Hp as [r' Hp].
  destruct q as [|x q]; [contradiction|]. simpl in Hp. inversion Hp; subst.
  rewrite under_WS_cons in Hq. discriminate.
Qed.

(* ------------------------------------------------------------------ footprints of the FS operations *)
Lemma makedirs_ws_only : forall f i f', makedirs f (jdir i) = FOk f' -> ws_only f f'.
Proof.
  intros f i f' H q Hq. destruct q as [|x q]; [reflexivity|].
  unfold makedirs in H. eapply makedirs_from_frame; [exact H| |discriminate].
  simpl. apply under_WS_prefix; [exact Hq|discriminate|apply under_WS_cons].
Qed.

(* makedirs keeps what exists and only adds directories *)
Lemma makedirs_from_new : forall ok rest f base f' q,
  makedirs_from ok f base rest = FOk f' -> get f q = None -> get f' q = None \/ get f' q = Some Dir.
Proof.
  induction rest as [|c rest IH]; intros f base f' q H Hq; simpl in H.
  - inversion H; subst. auto.
  - destruct (get f (base ++ [c])) as [[c0|]|] eqn:Ec.
    + destruct rest; discriminate.
    + destruct rest as [|c' rest'].
      * destruct ok; inversion H; subst; auto.
      * eapply IH; eauto.
    + destruct (path_eqb q (base ++ [c])) eqn:E.
      * apply path_eqb_eq in E. subst q. right.
        erewrite makedirs_from_get_old; eauto.
        -- rewrite get_app_cons. simpl. rewrite path_eqb_refl. reflexivity.
        -- rewrite get_app_cons. simpl. rewrite path_eqb_refl. discriminate.
      * eapply IH; eauto. destruct q as [|x q]; [simpl in Hq; discriminate|].
        simpl. simpl in E. rewrite E. rewrite <- get_cons_path. exact Hq.
Qed.

Lemma makedirs_keeps : forall f p f' q x, makedirs f p = FOk f' -> get f q = Some x -> get f' q = Some x.
Proof.
  intros f p f' q x H Hq. unfold makedirs in H. rewrite <- Hq. eapply makedirs_from_get_old; eauto. congruence.
Qed.

Lemma makedirs_isdir : forall f p f', makedirs f p = FOk f' -> get f' p = Some Dir.
Proof. intros f p f' H. unfold makedirs in H. apply (makedirs_from_isdir true p f [] f' H). reflexivity. Qed.

Section W.
  Variable frepr : fl -> str.

  (* the JSON backend's write of a state point file: exactly the file changes; a stale temp name goes *)
  Lemma json_write_spf : forall f i v f',
    json_write frepr f (spf i) v = FOk f' ->
    forall q, get f' q = if path_eqb q (spf i) then Some (File (sp_content frepr v))
                         else if path_eqb q (tmpf i) then None else get f q.
  Proof.
    intros f i v f' H q. unfold json_write in H. rewrite tmp_of_spf in H.
    destruct (write_file f (tmpf i) (sp_content frepr v)) as [f1|e] eqn:E1; [|discriminate].
    assert (G1 : forall q, get f1 q = if path_eqb q (tmpf i) then Some (File (sp_content frepr v)) else get f q)
      by (intro; eapply get_write_file; eauto).
    assert (Ht : get f1 (tmpf i) = Some (File (sp_content frepr v))) by (rewrite G1, path_eqb_refl; reflexivity).
    rewrite (get_rename_file f1 (tmpf i) (spf i) _ f' q Ht (tmpf_neq_spf i) H).
    destruct (path_eqb q (spf i)); auto. rewrite G1. destruct (path_eqb q (tmpf i)); auto.
  Qed.

  Lemma json_write_ws_only : forall f i v f', json_write frepr f (spf i) v = FOk f' -> ws_only f f'.
  Proof.
    intros f i v f' H q Hq. rewrite (json_write_spf f i v f' H).
    assert (E1 : path_eqb q (spf i) = false) by (apply path_eqb_neq, not_under_neq; auto; apply under_WS_cons).
    assert (E2 : path_eqb q (tmpf i) = false) by (apply path_eqb_neq, not_under_neq; auto; apply under_WS_cons).
    rewrite E1, E2. reflexivity.
  Qed.
End W.

Lemma rename_ws_only : forall f a b f',
  under [WS] a = true -> under [WS] b = true -> rename f a b = FOk f' -> ws_only f f'.
Proof.
  intros f a b f' Ha Hb H q Hq.
  destruct (path_eqb a b) eqn:Eab.
  { apply path_eqb_eq in Eab. subst b. unfold rename in H.
    destruct (get f a); [|discriminate]. destruct (get f (parent a)) as [[c|]|]; try discriminate.
    rewrite path_eqb_refl in H. inversion H; reflexivity. }
  apply path_eqb_neq in Eab.
  destruct (get f a) as [[c|]|] eqn:Ea.
  - eapply rename_file_frame; eauto; apply not_under_neq; auto.
  - destruct q as [|x q]; [reflexivity|].
    eapply rename_dir_frame; eauto.
    + apply under_spec in Ha. destruct Ha as [r ->]. destruct (under ([WS] ++ r) (x :: q)) eqn:E; auto.
      apply under_spec in E. destruct E as [r' E]. simpl in E. inversion E; subst.
      rewrite under_WS_cons in Hq. discriminate.
    + apply under_spec in Hb. destruct Hb as [r ->]. destruct (under ([WS] ++ r) (x :: q)) eqn:E; auto.
      apply under_spec in E. destruct E as [r' E]. simpl in E. inversion E; subst.
      rewrite under_WS_cons in Hq. discriminate.
  - unfold rename in H. rewrite Ea in H. discriminate.
Qed.

Lemma unlink_ws_only : forall f p f', under [WS] p = true -> unlink f p = FOk f' -> ws_only f f'.
Proof. intros f p f' Hp H q Hq. eapply unlink_frame; eauto. apply not_under_neq; auto. Qed.

Lemma rmtree_ws_only : forall f i f', rmtree f (jdir i) = FOk f' -> ws_only f f'.
Proof.
  intros f i f' H q Hq. eapply rmtree_frame; eauto.
  destruct (under (jdir i) q) eqn:E; auto. apply under_spec in E. destruct E as [r ->].
  simpl in Hq. rewrite under_WS_cons in Hq. discriminate.
Qed.

Lemma ws_only_cache_file : forall f f', ws_only f f' -> cache_file f' = cache_file f.
Proof. intros f f' H. unfold cache_file. rewrite (H CACHEP under_WS_cachep). reflexivity. Qed.

(* ------------------------------------------------------------------ the listing does not see the cache file *)
Lemma flat_map_child_remove : forall w p f,
  (forall n, child_name w (p, n) = []) ->
  flat_map (child_name w) (remove p f) = flat_map (child_name w) f.
Proof.
  intros w p f H. unfold remove. induction f as [|[q n] f IH]; simpl; auto.
  destruct (path_eqb p q) eqn:E; simpl.
  - apply path_eqb_eq in E. subst q. rewrite H. simpl. exact IH.
  - rewrite IH. reflexivity.
Qed.

Lemma children_remove : forall w p f, (forall n, child_name w (p, n) = []) -> children (remove p f) w = children f w.
Proof. intros. unfold children. rewrite flat_map_child_remove; auto. Qed.

Lemma children_write_file : forall w f p c f',
  (forall n, child_name w (p, n) = []) -> write_file f p c = FOk f' -> children f' w = children f w.
Proof.
  intros w f p c f' Hn H. unfold write_file in H.
  destruct (get f p) as [[c0|]|]; try discriminate;
    destruct (get f (parent p)) as [[c1|]|]; try discriminate; inversion H; subst;
    unfold children; simpl; rewrite Hn; simpl; rewrite flat_map_child_remove; auto.
Qed.

Lemma children_rename_file : forall w f a b c f',
  (forall n, child_name w (a, n) = []) -> (forall n, child_name w (b, n) = []) ->
  get f a = Some (File c) -> a <> b -> rename f a b = FOk f' -> children f' w = children f w.
Proof.
  intros w f a b c f' Ha Hb Hg Hab H. unfold rename in H. rewrite Hg in H.
  destruct (get f (parent b)) as [[c1|]|]; try discriminate.
  apply path_eqb_neq in Hab. rewrite Hab in H.
  assert (Hres : f' = (b, File c) :: remove a (remove b f)).
  { destruct (get f b) as [[c2|]|]; try discriminate; inversion H; reflexivity. }
  subst f'. unfold children. simpl. rewrite Hb. simpl. rewrite !flat_map_child_remove; auto.
Qed.

Lemma child_cachep : forall n, child_name [WS] (CACHEP, n) = [].
Proof. reflexivity. Qed.
Lemma child_cachetmp : forall n, child_name [WS] (CACHETMP, n) = [].
Proof. reflexivity. Qed.

Lemma listing_eq : forall f f', get f' [WS] = get f [WS] -> children f' [WS] = children f [WS] ->
  job_dirs f' WSP = job_dirs f WSP.
Proof. intros f f' H1 H2. unfold job_dirs, listdir, WSP. rewrite H1, H2. reflexivity. Qed.

Lemma get_without_cache : forall f q, q <> CACHEP -> get (without_cache f) q = get f q.
Proof.
  intros f q Hq. unfold without_cache. destruct q as [|x q]; [reflexivity|]. simpl.
  rewrite lookup_remove. apply not_eq_sym in Hq. apply path_eqb_neq in Hq. rewrite Hq. reflexivity.
Qed.

Lemma cache_file_without : forall f, cache_file (without_cache f) = None.
Proof.
  intro f. unfold cache_file, without_cache. simpl. rewrite lookup_remove, path_eqb_refl. reflexivity.
Qed.

Lemma listing_without_cache : forall f, job_dirs (without_cache f) WSP = job_dirs f WSP.
Proof.
  intro f. apply listing_eq.
  - apply get_without_cache. discriminate.
  - apply children_remove. apply child_cachep.
Qed.

Lemma listed_exists : forall f i, In i (job_dirs f WSP) ->
  exists_ f (jdir i) = true /\ (32 <= length i)%nat /\ id_match i = true.
Proof.
  intros f i H. unfold job_dirs, listdir in H. destruct (get f WSP) as [[c|]|]; try contradiction.
  apply filter_In in H. destruct H as [Hc Hm]. split; [|split; [|exact Hm]].
  - apply In_children in Hc. apply In_keys_lookup in Hc. destruct Hc as [n Hn].
    unfold exists_, jdir. unfold WSP in *. simpl app in *. rewrite get_cons_path, Hn. reflexivity.
  - unfold id_match in Hm. apply andb_true_iff in Hm. destruct Hm as [Hm _]. apply Nat.leb_le in Hm. exact Hm.
Qed.

Lemma norm_objb : forall a b, norm a = norm b -> is_objb a = is_objb b.
Proof. intros a b H. destruct a, b; simpl in *; try discriminate; reflexivity. Qed.
