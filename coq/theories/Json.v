(* Json.v — JSON values as signac state points / documents use them. *)
From SV Require Export Base.
From Coq Require Import Permutation Sorted.

(* A finite binary64 value is mant * 2^exp (mant odd), zero is (0,0), negative zero (0,1). *)
Definition fl := (Z * Z)%type.

Inductive json :=
| JNull
| JBool (b : bool)
| JInt (z : Z)
| JFloat (f : fl)
| JStr (s : str)
| JArr (l : list json)
| JObj (kvs : list (str * json)).

Section JsonInd.
  Variable P : json -> Prop.
  Hypothesis Hnull : P JNull.
  Hypothesis Hbool : forall b, P (JBool b).
  Hypothesis Hint : forall z, P (JInt z).
  Hypothesis Hfloat : forall f, P (JFloat f).
  Hypothesis Hstr : forall s, P (JStr s).
  Hypothesis Harr : forall l, Forall P l -> P (JArr l).
  Hypothesis Hobj : forall kvs, Forall (fun kv => P (snd kv)) kvs -> P (JObj kvs).

  Fixpoint json_ind' (v : json) : P v :=
    match v with
    | JNull => Hnull
    | JBool b => Hbool b
    | JInt z => Hint z
    | JFloat f => Hfloat f
    | JStr s => Hstr s
    | JArr l =>
        Harr l ((fix go (l : list json) : Forall P l :=
                   match l with
                   | [] => Forall_nil _
                   | x :: l' => Forall_cons x (json_ind' x) (go l')
                   end) l)
    | JObj kvs =>
        Hobj kvs ((fix go (l : list (str * json)) : Forall (fun kv => P (snd kv)) l :=
                     match l with
                     | [] => Forall_nil _
                     | kv :: l' => Forall_cons kv (json_ind' (snd kv)) (go l')
                     end) kvs)
    end.
End JsonInd.

(* decidable structural equality *)
Definition fl_eqb (a b : fl) : bool := Z.eqb (fst a) (fst b) && Z.eqb (snd a) (snd b).

Lemma fl_eqb_eq : forall a b, fl_eqb a b = true <-> a = b.
Proof.
  intros [a1 a2] [b1 b2]. unfold fl_eqb. simpl.
  rewrite andb_true_iff, !Z.eqb_eq. split; [intros [-> ->]; auto | intro H; inversion H; auto].
Qed.

Fixpoint json_eqb (a b : json) : bool :=
  match a, b with
  | JNull, JNull => true
  | JBool x, JBool y => Bool.eqb x y
  | JInt x, JInt y => Z.eqb x y
  | JFloat x, JFloat y => fl_eqb x y
  | JStr x, JStr y => str_eqb x y
  | JArr x, JArr y =>
      (fix go (x y : list json) : bool :=
         match x, y with
         | [], [] => true
         | a :: x', b :: y' => json_eqb a b && go x' y'
         | _, _ => false
         end) x y
  | JObj x, JObj y =>
      (fix go (x y : list (str * json)) : bool :=
         match x, y with
         | [], [] => true
         | (k, a) :: x', (k', b) :: y' => str_eqb k k' && json_eqb a b && go x' y'
         | _, _ => false
         end) x y
  | _, _ => false
  end.

Lemma json_eqb_eq : forall a b, json_eqb a b = true <-> a = b.
Proof.
  intro a. induction a using json_ind'; intro c; destruct c; simpl; try (split; congruence).
  - destruct b, b0; simpl; split; congruence.
  - rewrite Z.eqb_eq. split; congruence.
  - rewrite fl_eqb_eq. split; congruence.
  - rewrite str_eqb_eq. split; congruence.
  - revert l0. induction H as [|x l Hx Hl IH]; intros [|y l0]; try (split; congruence).
    rewrite andb_true_iff, Hx, IH. split.
    + intros [-> E]. inversion E; subst. reflexivity.
    + intro E. inversion E; subst. auto.
  - revert kvs0. induction H as [|[k x] l Hx Hl IH]; intros [|[k' y] kvs0]; try (split; congruence).
    simpl in Hx. rewrite !andb_true_iff, str_eqb_eq, Hx, IH. split.
    + intros [[-> ->] E]. inversion E; subst. reflexivity.
    + intro E. inversion E; subst. auto.
Qed.

Lemma json_eq_dec : forall a b : json, {a = b} + {a <> b}.
Proof.
  intros a b. destruct (json_eqb a b) eqn:E.
  - left. apply json_eqb_eq. exact E.
  - right. intro H. apply json_eqb_eq in H. congruence.
Defined.

(* ---- well-formedness: object keys distinct at every level ---- *)
Fixpoint keys_distinct (ks : list str) : bool :=
  match ks with
  | [] => true
  | k :: r => negb (str_mem k r) && keys_distinct r
  end.

Lemma keys_distinct_NoDup : forall ks, keys_distinct ks = true <-> NoDup ks.
Proof.
  induction ks as [|k r IH]; simpl.
  - split; [constructor|auto].
  - rewrite andb_true_iff, negb_true_iff, IH. split.
    + intros [Hn Hd]. constructor; auto. intro Hin. apply str_mem_In in Hin. congruence.
    + intro H. inversion H; subst. split; auto.
      destruct (str_mem k r) eqn:E; auto. apply str_mem_In in E. contradiction.
Qed.

Fixpoint wf (v : json) : bool :=
  match v with
  | JArr l => forallb wf l
  | JObj kvs => keys_distinct (map fst kvs) && forallb (fun kv => wf (snd kv)) kvs
  | _ => true
  end.

(* ---- normal form: keys sorted at every level (json.dumps(sort_keys=True)) ---- *)
Fixpoint insert_kv (k : str) (v : json) (l : list (str * json)) : list (str * json) :=
  match l with
  | [] => [(k, v)]
  | (k', v') :: l' => if str_leb k k' then (k, v) :: l else (k', v') :: insert_kv k v l'
  end.

Definition sort_kvs (l : list (str * json)) : list (str * json) :=
  fold_right (fun kv acc => insert_kv (fst kv) (snd kv) acc) [] l.

Fixpoint norm (v : json) : json :=
  match v with
  | JArr l => JArr (map norm l)
  | JObj kvs => JObj (sort_kvs (map (fun kv => match kv with (k, x) => (k, norm x) end) kvs))
  | _ => v
  end.

(* ---- equality up to key order at every level ---- *)
Inductive jperm : json -> json -> Prop :=
| jp_null : jperm JNull JNull
| jp_bool : forall b, jperm (JBool b) (JBool b)
| jp_int : forall z, jperm (JInt z) (JInt z)
| jp_float : forall f, jperm (JFloat f) (JFloat f)
| jp_str : forall s, jperm (JStr s) (JStr s)
| jp_arr : forall l l', Forall2 jperm l l' -> jperm (JArr l) (JArr l')
| jp_obj : forall kvs mid kvs',
    Permutation kvs mid ->
    Forall2 (fun a b => fst a = fst b /\ jperm (snd a) (snd b)) mid kvs' ->
    jperm (JObj kvs) (JObj kvs').

(* sortedness by strict key order *)
Definition klt (a b : str * json) : Prop := str_ltb (fst a) (fst b) = true.

Lemma insert_kv_perm : forall k v l, Permutation ((k, v) :: l) (insert_kv k v l).
Proof.
  induction l as [|[k' v'] l IH]; simpl; auto.
  destruct (str_leb k k'); auto.
  eapply perm_trans; [apply perm_swap|]. constructor. exact IH.
Qed.

Lemma sort_kvs_perm : forall l, Permutation l (sort_kvs l).
Proof.
  induction l as [|[k v] l IH]; simpl; auto.
  eapply perm_trans; [|apply insert_kv_perm]. constructor. exact IH.
Qed.

Lemma str_leb_ltb : forall a b, str_leb a b = true -> a <> b -> str_ltb a b = true.
Proof.
  unfold str_leb, str_ltb. intros a b H Hne. destruct (str_cmp a b) eqn:E; auto; try discriminate.
  apply str_cmp_eq in E. contradiction.
Qed.

Lemma str_leb_false_ltb : forall a b, str_leb a b = false -> str_ltb b a = true.
Proof.
  unfold str_leb, str_ltb. intros a b H. rewrite (str_cmp_antisym a b).
  destruct (str_cmp a b); simpl; auto; discriminate.
Qed.

Lemma insert_kv_sorted : forall k v l,
  ~ In k (map fst l) -> StronglySorted klt l -> StronglySorted klt (insert_kv k v l).
Proof.
  induction l as [|[k' v'] l IH]; simpl; intros Hnin Hs.
  - constructor; constructor.
  - inversion Hs as [|? ? Hs' Hall]; subst.
    destruct (str_leb k k') eqn:E.
    + constructor; auto.
      assert (Hlt : str_ltb k k' = true) by (apply str_leb_ltb; auto).
      constructor; [exact Hlt|].
      rewrite Forall_forall in *. intros x Hx. unfold klt in *. simpl in *.
      eapply str_ltb_trans; [exact Hlt|]. apply (Hall x Hx).
    + constructor.
      * apply IH; auto.
      * assert (Hlt : str_ltb k' k = true) by (apply str_leb_false_ltb; auto).
        rewrite Forall_forall in *. intros x Hx.
        assert (Hp : In x ((k, v) :: l)).
        { eapply Permutation_in; [apply Permutation_sym, insert_kv_perm|exact Hx]. }
        destruct Hp as [<-|Hp]; [exact Hlt|auto].
Qed.

Lemma sort_kvs_sorted : forall l, NoDup (map fst l) -> StronglySorted klt (sort_kvs l).
Proof.
  induction l as [|[k v] l IH]; simpl; intro Hnd.
  - constructor.
  - inversion Hnd; subst. apply insert_kv_sorted; auto.
    intro Hin. apply H1.
    eapply Permutation_in; [|exact Hin]. apply Permutation_map, Permutation_sym, sort_kvs_perm.
Qed.

Lemma klt_irrefl_in : forall x l, Forall (klt x) l -> ~ In x l.
Proof.
  intros x l H Hin. rewrite Forall_forall in H. specialize (H x Hin).
  unfold klt in H. rewrite str_ltb_irrefl in H. discriminate.
Qed.

(* two strictly sorted lists with the same elements are equal *)
Lemma sorted_perm_eq : forall l l',
  StronglySorted klt l -> StronglySorted klt l' -> Permutation l l' -> l = l'.
Proof.
  induction l as [|x l IH]; intros l' Hs Hs' Hp.
  - apply Permutation_nil in Hp. auto.
  - destruct l' as [|y l']; [apply Permutation_sym, Permutation_nil in Hp; discriminate|].
    inversion Hs as [|? ? Hs1 Hall]; subst. inversion Hs' as [|? ? Hs1' Hall']; subst.
    assert (x = y).
    { assert (Hx : In x (y :: l')) by (eapply Permutation_in; [exact Hp|left; auto]).
      assert (Hy : In y (x :: l)) by (eapply Permutation_in; [apply Permutation_sym; exact Hp|left; auto]).
      destruct Hx as [Hx|Hx]; auto. destruct Hy as [Hy|Hy]; auto.
      rewrite Forall_forall in Hall, Hall'.
      specialize (Hall y Hy). specialize (Hall' x Hx). unfold klt in *.
      apply str_ltb_asym in Hall. congruence. }
    subst y. f_equal. apply IH; auto. eapply Permutation_cons_inv; exact Hp.
Qed.

Lemma wf_obj_inv : forall kvs, wf (JObj kvs) = true ->
  NoDup (map fst kvs) /\ Forall (fun kv => wf (snd kv) = true) kvs.
Proof.
  intros kvs H. simpl in H. apply andb_true_iff in H. destruct H as [H1 H2].
  split; [apply keys_distinct_NoDup; auto|]. apply Forall_forall. rewrite forallb_forall in H2. auto.
Qed.

Definition normkv (kv : str * json) : str * json := match kv with (k, x) => (k, norm x) end.

Lemma map_fst_normkv : forall l, map fst (map normkv l) = map fst l.
Proof. induction l as [|[k v] l IH]; simpl; congruence. Qed.

(* Main invariance theorem: canonical form does not depend on key order at any depth. *)
Theorem norm_jperm : forall v v', jperm v v' -> wf v = true -> wf v' = true -> norm v = norm v'.
Proof.
  induction v using json_ind'; intros v' Hp Hw Hw'; inversion Hp; subst; simpl; auto.
  - (* arrays *)
    f_equal. simpl in Hw, Hw'.
    clear Hp. match goal with Hf : Forall2 jperm _ _ |- _ => revert Hw Hw'; induction Hf as [|a b l1 l2 Hab Hf IHf]; intros Hw Hw' end; simpl; auto.
    simpl in Hw, Hw'. apply andb_true_iff in Hw, Hw'. destruct Hw, Hw'.
    inversion H; subst. f_equal; auto.
  - (* objects *)
    f_equal. fold normkv.
    destruct (wf_obj_inv _ Hw) as [Hnd Hwf]. destruct (wf_obj_inv _ Hw') as [Hnd' Hwf'].
    match goal with Hpm : Permutation kvs mid, Hf : Forall2 _ mid _ |- _ => rename Hpm into Hperm; rename Hf into Hf2 end.
    assert (Hmid : map normkv mid = map normkv kvs').
    { assert (HPmid : Forall (fun kv => forall v', jperm (snd kv) v' -> wf (snd kv) = true -> wf v' = true -> norm (snd kv) = norm v') mid).
      { apply Forall_forall. intros x Hx. rewrite Forall_forall in H. apply H.
        eapply Permutation_in; [apply Permutation_sym; exact Hperm|exact Hx]. }
      assert (Hwmid : Forall (fun kv => wf (snd kv) = true) mid).
      { apply Forall_forall. intros x Hx. rewrite Forall_forall in Hwf. apply Hwf.
        eapply Permutation_in; [apply Permutation_sym; exact Hperm|exact Hx]. }
      clear Hperm H Hnd Hnd' Hw Hw' Hp Hwf.
      induction Hf2 as [|[k a] [k' b] m1 m2 [Hk Hab] Hf2 IHf]; simpl; auto.
      simpl in Hk. subst k'. inversion HPmid; subst. inversion Hwmid; subst. inversion Hwf'; subst.
      simpl in *. f_equal; auto. f_equal. auto. }
    apply sorted_perm_eq.
    + apply sort_kvs_sorted. rewrite map_fst_normkv. exact Hnd.
    + apply sort_kvs_sorted. rewrite map_fst_normkv. exact Hnd'.
    + eapply perm_trans; [apply Permutation_sym, sort_kvs_perm|].
      eapply perm_trans; [|apply sort_kvs_perm].
      rewrite <- Hmid. apply Permutation_map. exact Hperm.
Qed.

(* jperm is reflexive, and sorting is an instance of it *)
Lemma jperm_refl : forall v, jperm v v.
Proof.
  induction v using json_ind'; try constructor.
  - induction H; constructor; auto.
  - apply jp_obj with (mid := kvs); [apply Permutation_refl|].
    induction H; constructor; auto.
Qed.

Lemma Forall2_jperm_sym_aux : forall l l',
  Forall (fun v => forall v', jperm v v' -> jperm v' v) l -> Forall2 jperm l l' -> Forall2 jperm l' l.
Proof.
  intros l l' H Hf. induction Hf; constructor; inversion H; subst; auto.
Qed.

Lemma Forall2_flip : forall (A B : Type) (R : A -> B -> Prop) l1 l2,
  Forall2 R l1 l2 -> Forall2 (fun b a => R a b) l2 l1.
Proof. intros A B R l1 l2 H. induction H; constructor; auto. Qed.

Lemma Forall2_perm_r : forall (A B : Type) (R : A -> B -> Prop) l2 l2',
  Permutation l2 l2' -> forall l1, Forall2 R l1 l2 ->
  exists l1', Permutation l1 l1' /\ Forall2 R l1' l2'.
Proof.
  intros A B R l2 l2' Hp. induction Hp; intros l1 Hf.
  - inversion Hf; subst. exists []. split; constructor.
  - inversion Hf as [|a ? l1t ? Hax Hf']; subst. destruct (IHHp _ Hf') as [m [Hm1 Hm2]].
    exists (a :: m). split; constructor; auto.
  - inversion Hf as [|a ? l1t ? Hay Hf']; subst. inversion Hf' as [|b ? l1u ? Hbx Hf'']; subst.
    exists (b :: a :: l1u). split; [apply perm_swap|]. constructor; auto.
  - destruct (IHHp1 _ Hf) as [m1 [Hm1 Hm1']]. destruct (IHHp2 _ Hm1') as [m2 [Hm2 Hm2']].
    exists m2. split; [eapply perm_trans; eauto|auto].
Qed.

Lemma jperm_sym : forall v v', jperm v v' -> jperm v' v.
Proof.
  induction v using json_ind'; intros v' Hp; inversion Hp; subst; try constructor.
  - apply Forall2_jperm_sym_aux; auto.
  - match goal with Hpm : Permutation kvs mid, Hf : Forall2 _ mid _ |- _ => rename Hpm into Hperm; rename Hf into Hf2 end.
    apply Forall2_flip in Hf2.
    destruct (Forall2_perm_r _ _ _ _ _ (Permutation_sym Hperm) _ Hf2) as [m [Hm1 Hm2]].
    apply jp_obj with (mid := m); auto.
    assert (Hall : Forall (fun kv => forall v', jperm (snd kv) v' -> jperm v' (snd kv)) kvs) by exact H.
    clear - Hm2 Hall. induction Hm2 as [|a b l1 l2 [Hk Hj] Hm2 IH]; constructor.
    + inversion Hall; subst. split; auto.
    + inversion Hall; subst. auto.
Qed.

Lemma jperm_norm : forall v, jperm v (norm v).
Proof.
  induction v using json_ind'; simpl; try constructor.
  - induction H; simpl; constructor; auto.
  - fold normkv.
    assert (Hf : Forall2 (fun a b => fst a = fst b /\ jperm (snd a) (snd b)) kvs (map normkv kvs)).
    { induction H as [|[k x] l Hx Hl IH]; simpl; constructor; auto. }
    destruct (Forall2_perm_r _ _ _ _ _ (sort_kvs_perm (map normkv kvs)) _ Hf) as [m [Hm1 Hm2]].
    apply jp_obj with (mid := m); auto.
Qed.

(* "the same JSON value" := equal normal forms; jperm implies it (norm_jperm) and every value is
   jperm-related to its normal form (jperm_norm). *)
Definition same_json (v v' : json) : Prop := norm v = norm v'.
