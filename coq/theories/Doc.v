(* Doc.v — signac documents (job.document / project.document) as persistent dicts.

   Layers
   1. plain Python dict/list semantics on [json] values addressed by a path        ([plain_apply], [plain_step])
   2. the synced-collection protocol of the dependency (modelled, not verified): every handle owns an
      in-memory copy that is *merged* with the file before an operation ([merge] = SyncedDict._update /
      SyncedList._update: an existing entry that compares == (Python ==) to the loaded one is kept as it is),
      the operation is applied, and the result is written back                     ([ustep])
   3. the buffer of SerializedFileBufferedCollection: one entry per file (contents, hash of the data the
      entry was created from), a total size, a capacity, a nesting depth, the ordered set of collections
      that touched the buffer; forced flush on overflow, flush-all on leaving the outermost block ([bstep])
   4. the signac part: which file a Job/Project handle resolves to, lazily, after init(), dropped on
      remove() and on an id change                                                 ([jstep])

   Files are kept as parsed values with their key order (json.loads keeps the order of the text, and
   json.dumps(json.loads(t)) = t for texts written by json.dumps), so "the bytes of the file" = [dumps v]. *)
From SV Require Import Base Json Canon.

(* ------------------------------------------------------------------ Python == on JSON values *)
Definition num_of (v : json) : option (Z * Z) :=
  match v with
  | JBool b => Some ((if b then 1 else 0)%Z, 0%Z)
  | JInt z => Some (z, 0%Z)
  | JFloat f => Some f
  | _ => None
  end.

(* mant * 2^exp compared exactly *)
Definition num_eqb (a b : Z * Z) : bool :=
  let e := Z.min (snd a) (snd b) in
  Z.eqb (fst a * 2 ^ (snd a - e)) (fst b * 2 ^ (snd b - e)).

Fixpoint py_eq (a b : json) : bool :=
  match a with
  | JNull => match b with JNull => true | _ => false end
  | JStr s => match b with JStr t => str_eqb s t | _ => false end
  | JArr l =>
      match b with
      | JArr l' =>
          (fix go (l l' : list json) : bool :=
             match l, l' with
             | [], [] => true
             | x :: r, y :: r' => py_eq x y && go r r'
             | _, _ => false
             end) l l'
      | _ => false
      end
  | JObj kvs =>
      match b with
      | JObj kvs' =>
          Nat.eqb (length kvs) (length kvs') &&
          (fix go (l : list (str * json)) : bool :=
             match l with
             | [] => true
             | (k, x) :: r =>
                 match alookup k kvs' with Some y => py_eq x y | None => false end && go r
             end) kvs
      | _ => false
      end
  | _ => match num_of a, num_of b with Some x, Some y => num_eqb x y | _, _ => false end
  end.

Definition amem {A} (k : str) (l : list (str * A)) : bool :=
  match alookup k l with Some _ => true | None => false end.

(* ------------------------------------------------------------------ SyncedDict._update / SyncedList._update *)
Fixpoint merge_rec (old new : json) : json :=
  match old with
  | JObj o =>
      match new with
      | JObj n =>
          if py_eq new old then old else
          JObj ((fix go (l : list (str * json)) : list (str * json) :=
                   match l with
                   | [] => []
                   | (k, ov) :: r =>
                       match alookup k n with
                       | Some nv => (k, merge_rec ov nv) :: go r
                       | None => go r
                       end
                   end) o
                ++ filter (fun kv => negb (amem (fst kv) o)) n)
      | JNull => old          (* existing._update(None) is a no-op and counts as done *)
      | _ => new
      end
  | JArr o =>
      match new with
      | JArr n =>
          if py_eq new old then old else
          JArr ((fix go (l n : list json) : list json :=
                   match l, n with
                   | x :: r, y :: r' => merge_rec x y :: go r r'
                   | _, rest => rest
                   end) o n)
      | JNull => old
      | _ => new
      end
  | _ => if py_eq new old then old else new
  end.

(* identical data is left alone (new == existing holds for it; dict keys are distinct in Python, so this
   shortcut changes nothing on values that can occur) *)
Definition merge (old new : json) : json := if json_eqb old new then old else merge_rec old new.

(* The same function, except that the place where None fails to replace a container is made visible:
   used only by the known-finding classifier of the correspondence (CorrC05.classify_C05). *)
Definition null_marker : json := JStr [60; 78; 79; 78; 69; 62]%N.   (* "<NONE>" *)
Fixpoint merge_mark_rec (old new : json) : json :=
  match old with
  | JObj o =>
      match new with
      | JObj n =>
          if py_eq new old then old else
          JObj ((fix go (l : list (str * json)) : list (str * json) :=
                   match l with
                   | [] => []
                   | (k, ov) :: r =>
                       match alookup k n with
                       | Some nv => (k, merge_mark_rec ov nv) :: go r
                       | None => go r
                       end
                   end) o
                ++ filter (fun kv => negb (amem (fst kv) o)) n)
      | JNull => null_marker
      | _ => new
      end
  | JArr o =>
      match new with
      | JArr n =>
          if py_eq new old then old else
          JArr ((fix go (l n : list json) : list json :=
                   match l, n with
                   | x :: r, y :: r' => merge_mark_rec x y :: go r r'
                   | _, rest => rest
                   end) o n)
      | JNull => null_marker
      | _ => new
      end
  | _ => if py_eq new old then old else new
  end.

Definition merge_mark (old new : json) : json := if json_eqb old new then old else merge_mark_rec old new.

(* ------------------------------------------------------------------ paths and operations *)
Inductive pelem := PKey (k : str) | PIdx (i : N).
Definition path := list pelem.

Inductive dop :=
| OGet                                   (* read: d()            *)
| OSet (k : str) (v : json)              (* d[k] = v / d.k = v   *)
| ODel (k : str)                         (* del d[k]             *)
| OUpdate (o : list (str * json))        (* d.update(o)          *)
| OSetDefault (k : str) (v : json)       (* d.setdefault(k, v)   *)
| OPop (k : str) (dflt : json)           (* d.pop(k, dflt)       *)
| OClear                                 (* d.clear()            *)
| OReset (o : list (str * json))         (* d.reset(o) / job.document = o *)
| LAppend (v : json)
| LSet (i : N) (v : json)
| LDel (i : N)
| LExtend (vs : list json)
| LInsert (i : N) (v : json)
| LClear.

Definition is_read (o : dop) : bool := match o with OGet => true | _ => false end.

Fixpoint list_set {A} (i : nat) (v : A) (l : list A) : option (list A) :=
  match l, i with
  | [], _ => None
  | _ :: r, O => Some (v :: r)
  | x :: r, S i' => match list_set i' v r with Some r' => Some (x :: r') | None => None end
  end.

Fixpoint list_del {A} (i : nat) (l : list A) : option (list A) :=
  match l, i with
  | [], _ => None
  | _ :: r, O => Some r
  | x :: r, S i' => match list_del i' r with Some r' => Some (x :: r') | None => None end
  end.

Fixpoint list_insert {A} (i : nat) (v : A) (l : list A) : list A :=
  match l, i with
  | [], _ => [v]
  | _, O => v :: l
  | x :: r, S i' => x :: list_insert i' v r
  end.

Definition aset_all (o : list (str * json)) (d : list (str * json)) : list (str * json) :=
  fold_left (fun acc kv => aset (fst kv) (snd kv) acc) o d.

(* One operation on its target container; [upd] is how update()/reset() bring in new data:
   plain dicts take it as it is, synced collections merge it into what they hold. *)
Definition apply_with (upd : json -> json -> json) (o : dop) (t : json) : result (json * json) :=
  match o, t with
  | OGet, _ => Ok (t, t)
  | OSet k v, JObj d => Ok (JObj (aset k v d), JNull)
  | ODel k, JObj d => if amem k d then Ok (JObj (aremove k d), JNull) else Err EKeyError
  | OUpdate n, JObj d => Ok (upd t (JObj (aset_all n d)), JNull)
  | OSetDefault k v, JObj d =>
      match alookup k d with
      | Some x => Ok (t, x)
      | None => Ok (JObj (aset k v d), v)
      end
  | OPop k dflt, JObj d =>
      match alookup k d with
      | Some x => Ok (JObj (aremove k d), x)
      | None => Ok (t, dflt)
      end
  | OClear, JObj _ => Ok (JObj [], JNull)
  | OClear, JArr _ => Ok (JArr [], JNull)           (* both container types have clear() *)
  | LClear, JObj _ => Ok (JObj [], JNull)
  | OReset _, JArr _ => Err EValueError              (* SyncedList.reset(mapping): ValueError, nothing saved *)
  | OReset n, JObj _ => Ok (upd t (JObj (aset_all n [])), JNull)
  | LAppend v, JArr l => Ok (JArr (l ++ [v]), JNull)
  | LSet i v, JArr l =>
      match list_set (N.to_nat i) v l with Some l' => Ok (JArr l', JNull) | None => Err ELookupError end
  | LDel i, JArr l =>
      match list_del (N.to_nat i) l with Some l' => Ok (JArr l', JNull) | None => Err ELookupError end
  | LDel _, JObj _ => Err EKeyError        (* del d[5] on a dict: no such key *)
  | LExtend vs, JArr l => Ok (JArr (l ++ vs), JNull)
  | LInsert i v, JArr l => Ok (JArr (list_insert (N.to_nat i) v l), JNull)
  | LClear, JArr _ => Ok (JArr [], JNull)
  | _, _ => Err ETypeError
  end.

Definition plain_apply := apply_with (fun _ new => new).

(* d[p1][p2]... *)
Fixpoint get_at (p : path) (v : json) : result json :=
  match p with
  | [] => Ok v
  | PKey k :: p' =>
      match v with
      | JObj d => match alookup k d with Some x => get_at p' x | None => Err EKeyError end
      | _ => Err ETypeError
      end
  | PIdx i :: p' =>
      match v with
      | JArr l => match nth_error l (N.to_nat i) with Some x => get_at p' x | None => Err ELookupError end
      | JObj _ => Err EKeyError
      | _ => Err ETypeError
      end
  end.

Fixpoint set_at (p : path) (nv : json) (v : json) : json :=
  match p with
  | [] => nv
  | PKey k :: p' =>
      match v with
      | JObj d => match alookup k d with Some x => JObj (aset k (set_at p' nv x) d) | None => v end
      | _ => v
      end
  | PIdx i :: p' =>
      match v with
      | JArr l =>
          match nth_error l (N.to_nat i) with
          | Some x => match list_set (N.to_nat i) (set_at p' nv x) l with Some l' => JArr l' | None => v end
          | None => v
          end
      | _ => v
      end
  end.

(* an operation at a path on a whole document: new document and returned value / exception *)
Definition doc_apply (upd : json -> json -> json) (p : path) (o : dop) (d : json) : json * result json :=
  match get_at p d with
  | Err e => (d, Err e)
  | Ok t =>
      match apply_with upd o t with
      | Ok (t', r) => (set_at p t' d, Ok r)
      | Err e => (d, Err e)
      end
  end.

Definition plain_step (p : path) (o : dop) (d : json) : json * result json := doc_apply (fun _ new => new) p o d.

(* ------------------------------------------------------------------ numeric-keyed association lists *)
Section NAssoc.
  Context {A : Type}.
  Fixpoint nlookup (k : N) (l : list (N * A)) : option A :=
    match l with [] => None | (k', v) :: r => if N.eqb k k' then Some v else nlookup k r end.
  Fixpoint nset (k : N) (v : A) (l : list (N * A)) : list (N * A) :=
    match l with
    | [] => [(k, v)]
    | (k', v') :: r => if N.eqb k k' then (k', v) :: r else (k', v') :: nset k v r
    end.
  Fixpoint nremove (k : N) (l : list (N * A)) : list (N * A) :=
    match l with [] => [] | (k', v) :: r => if N.eqb k k' then nremove k r else (k', v) :: nremove k r end.
End NAssoc.

Definition nmem (k : N) (l : list N) : bool := existsb (N.eqb k) l.

(* ------------------------------------------------------------------ core state *)
(* b_meta: the (size, mtime_ns) of the file when the entry was created, abstracted to a version number *)
Record bentry := { b_contents : json; b_hash : json; b_meta : option N }.

(* what the buffer's integrity checks look at *)
Record disk := {
  vers : list (N * N);                 (* file id |-> version of the file on disk (stands for its size+mtime) *)
  clock : N;                           (* next version number                                             *)
  nowrite : list N;                    (* files whose directory does not exist (a write raises ENOENT)    *)
  ferr : bool;                         (* the last _flush_buffer collected issues (raises BufferedError)   *)
  oerr : bool                          (* an unbuffered save hit a missing directory (raises OSError)      *)
}.

Record cstate := {
  files : list (N * json);             (* file id  |-> parsed contents of the JSON file            *)
  mems  : list (N * (N * json));       (* collection (document handle) |-> (file id, in-memory data) *)
  buf   : list (N * bentry);           (* the class-level buffer: file id |-> entry                 *)
  reg   : list N;                      (* _buffered_collections, oldest first                       *)
  cap   : N;                           (* _BUFFER_CAPACITY                                          *)
  caps  : list (option N);             (* capacities to restore on exit                             *)
  depth : nat;                         (* entry count of the backend's buffer context               *)
  dk : disk
}.

Definition empty_obj := JObj [].
Definition fcontent (st : cstate) (f : N) : json :=
  match nlookup f (files st) with Some v => v | None => empty_obj end.

Definition with_files st x := {| files := x; mems := mems st; buf := buf st; reg := reg st; cap := cap st; caps := caps st; depth := depth st; dk := dk st |}.
Definition with_mems st x := {| files := files st; mems := x; buf := buf st; reg := reg st; cap := cap st; caps := caps st; depth := depth st; dk := dk st |}.
Definition with_buf st x := {| files := files st; mems := mems st; buf := x; reg := reg st; cap := cap st; caps := caps st; depth := depth st; dk := dk st |}.
Definition with_reg st x := {| files := files st; mems := mems st; buf := buf st; reg := x; cap := cap st; caps := caps st; depth := depth st; dk := dk st |}.
Definition with_cap st x := {| files := files st; mems := mems st; buf := buf st; reg := reg st; cap := x; caps := caps st; depth := depth st; dk := dk st |}.
Definition with_caps st x := {| files := files st; mems := mems st; buf := buf st; reg := reg st; cap := cap st; caps := x; depth := depth st; dk := dk st |}.
Definition with_depth st x := {| files := files st; mems := mems st; buf := buf st; reg := reg st; cap := cap st; caps := caps st; depth := x; dk := dk st |}.

Definition with_dk st x := {| files := files st; mems := mems st; buf := buf st; reg := reg st; cap := cap st; caps := caps st; depth := depth st; dk := x |}.
Definition with_ferr st (b : bool) :=
  with_dk st {| vers := vers (dk st); clock := clock (dk st); nowrite := nowrite (dk st); ferr := b; oerr := oerr (dk st) |}.
Definition ferr_of (st : cstate) : bool := ferr (dk st).
Definition with_nowrite st (l : list N) :=
  with_dk st {| vers := vers (dk st); clock := clock (dk st); nowrite := l; ferr := ferr (dk st); oerr := oerr (dk st) |}.
Definition with_vers st (v : list (N * N)) :=
  with_dk st {| vers := v; clock := clock (dk st); nowrite := nowrite (dk st); ferr := ferr (dk st); oerr := oerr (dk st) |}.

(* the file is (re)written: new contents, new version *)
Definition write_file st (f : N) (m : json) :=
  with_dk (with_files st (nset f m (files st)))
    {| vers := nset f (clock (dk st)) (vers (dk st)); clock := N.succ (clock (dk st));
       nowrite := nowrite (dk st); ferr := ferr (dk st); oerr := oerr (dk st) |}.
Definition with_oerr st (b : bool) :=
  with_dk st {| vers := vers (dk st); clock := clock (dk st); nowrite := nowrite (dk st); ferr := ferr (dk st); oerr := b |}.
Definition oerr_of (st : cstate) : bool := oerr (dk st).

Definition ometa_eqb (a b : option N) : bool :=
  match a, b with Some x, Some y => N.eqb x y | None, None => true | _, _ => false end.

Definition set_mem st (h f : N) (m : json) := with_mems st (nset h (f, m) (mems st)).

Section Buffered.
  (* float.__repr__ — needed only for the byte length of a buffer entry *)
  Variable frepr : fl -> str.
  (* SyncedCollection._update; instantiated with [merge] (and with [merge_mark] by the classifier) *)
  Variable mg : json -> json -> json.
  (* The buffer is keyed by the file NAME a collection was created with, the files by what the name denotes.
     [canon k] is the file a key denotes.  It is the identity whenever project paths are canonical (the theorems
     are stated for that instance); a Project object reached through a symlinked prefix has names that abspath
     does not canonicalise — its keys are 100 + file id (CorrC05.canon100). *)
  Variable canon : N -> N.

  Definition sync_apply := apply_with mg.

  (* what _load does to the in-memory data: nothing if the resource does not exist *)
  Definition merge_opt (m : json) (data : option json) : json :=
    match data with Some v => mg m v | None => m end.

  Definition blen (v : json) : N := N.of_nat (length (dumps frepr v)).
  Definition bsize (st : cstate) : N := fold_right (fun e acc => (blen (b_contents (snd e)) + acc)%N) 0%N (buf st).

  (* ---------------- unbuffered protocol: load-file; apply; write-file ---------------- *)
  (* clear()/reset() do not load before they overwrite; every other method does *)
  Definition op_loads (o : dop) : bool :=
    match o with
    | OClear | OReset _ | LClear => false
    | _ => true
    end.

  (* ---------------- the buffer ---------------- *)
  Definition register (st : cstate) (h : N) : cstate :=
    if nmem h (reg st) then st else with_reg st (reg st ++ [h]).

  (* collection h flushes itself (SerializedFileBufferedCollection._flush, not buffered or forced) *)
  Definition flush_one (st : cstate) (h : N) : cstate :=
    match nlookup h (mems st) with
    | None => st
    | Some (f, m) =>
        match nlookup f (buf st) with
        | None => st
        | Some e =>
            let st1 :=
              if json_eqb m (b_hash e) then st
              else if negb (ometa_eqb (b_meta e) (nlookup (canon f) (vers (dk st)))) then
                with_ferr st true                       (* MetadataError: the file changed on disk since it was buffered *)
              else let m' := mg m (b_contents e) in
                   if nmem (canon f) (nowrite (dk st)) then with_ferr (set_mem st h f m') true   (* _update, then ENOENT in _save_to_resource *)
                   else write_file (set_mem st h f m') (canon f) m' in
            with_buf st1 (nremove f (buf st1))
        end
    end.

  (* _flush_buffer: popitem() takes the most recently registered collection first *)
  Definition flush_all (st : cstate) : cstate :=
    with_reg (fold_left flush_one (rev (reg st)) (with_ferr st false)) [].

  (* afterwards [ferr_of] tells whether this check raised BufferedError *)
  Definition check_capacity (st : cstate) : cstate :=
    if (cap st <? bsize st)%N then flush_all st else with_ferr st false.

  Definition load_buffered (st : cstate) (h f : N) (m : json) : cstate * json :=
    let '(st1, m1) :=
      match nlookup f (buf st) with
      | Some _ => (st, m)
      | None =>
          let m1 := merge_opt m (nlookup (canon f) (files st)) in
          (with_buf (set_mem st h f m1)
             (nset f {| b_contents := m1; b_hash := m1; b_meta := nlookup (canon f) (vers (dk st)) |} (buf st)), m1)
      end in
    let st2 := register st1 h in
    let blob := match nlookup f (buf st2) with Some e => b_contents e | None => m1 end in
    let st3 := check_capacity st2 in
    if ferr_of st3 then (st3, m1)           (* BufferedError out of _load_from_buffer: nothing more happens *)
    else
    (* the flush may have changed this collection's data; then the decoded blob is merged in *)
    let m3 := match nlookup h (mems st3) with Some (_, x) => x | None => m1 end in
    let m4 := mg m3 blob in
    (set_mem st3 h f m4, m4).

  Definition save_buffered (st : cstate) (h f : N) (m : json) : cstate :=
    let st0 := register (set_mem st h f m) h in
    let st1 :=
      match nlookup f (buf st0) with
      | Some e => with_buf st0 (nset f {| b_contents := m; b_hash := b_hash e; b_meta := b_meta e |} (buf st0))
      | None =>
          let disk := match nlookup (canon f) (files st0) with Some v => v | None => JNull end in
          with_buf st0 (nset f {| b_contents := m; b_hash := disk; b_meta := nlookup (canon f) (vers (dk st0)) |} (buf st0))
      end in
    check_capacity st1.

  Definition load (st : cstate) (h f : N) (m : json) : cstate * json :=
    match depth st with
    | O => let m' := merge_opt m (nlookup (canon f) (files st)) in (set_mem st h f m', m')
    | S _ => load_buffered st h f m
    end.

  Definition save (st : cstate) (h f : N) (m : json) : cstate :=
    match depth st with
    | O => if nmem (canon f) (nowrite (dk st)) then with_oerr (set_mem st h f m) true      (* ENOENT: the directory is gone *)
           else write_file (set_mem st h f m) (canon f) m
    | S _ => save_buffered st h f m
    end.

  (* d[e1][e2]...: every __getitem__ on the way loads the root again before it indexes *)
  Fixpoint walk (st : cstate) (h f : N) (m : json) (pre p : path) : cstate * json * option exn :=
    match p with
    | [] => (st, m, None)
    | e :: p' =>
        let '(st1, m1) := load st h f m in
        if ferr_of st1 then (st1, m1, Some ERuntimeError) else
        match get_at (pre ++ [e]) m1 with
        | Err x => (st1, m1, Some x)
        | Ok _ => walk st1 h f m1 (pre ++ [e]) p'
        end
    end.

  (* d[e1]...[en] hands out the nested collection OBJECT; the method called on it loads the root once more.  That
     load updates nested collections in place as long as their kind (dict / list) stays the same; where the kind
     changed (or the element disappeared) a new object is put into the parent and the one handed out before is
     detached: the method then works on the detached object's old data and its modification never reaches the root. *)
  Definition kind_of (v : json) : N := match v with JObj _ => 1%N | JArr _ => 2%N | _ => 0%N end.
  Fixpoint survives (p : path) (a b : json) : bool :=
    match p with
    | [] => true
    | e :: p' =>
        match get_at [e] a, get_at [e] b with
        | Ok x, Ok y => N.eqb (kind_of x) (kind_of y) && survives p' x y
        | _, _ => false
        end
    end.

  (* one document operation through collection h: what SyncedDict/SyncedList methods do *)
  (* synced_collections.errors.BufferedError is a RuntimeError *)
  Definition raised (st : cstate) (r : result json) : result json :=
    if ferr_of st then Err ERuntimeError else if oerr_of st then Err EOSError else r.

  Definition cop (st00 : cstate) (h : N) (p : path) (o : dop) : cstate * result json :=
    let st := with_oerr (with_ferr st00 false) false in
    match nlookup h (mems st) with
    | None => (st, Err EOther)
    | Some (f, m0) =>
        match walk st h f m0 [] p with
        | (st0, _, Some e) => (st0, Err e)        (* raised by __getitem__ on the way: nothing is saved *)
        | (st0, m0', None) =>
            let '(st1, m1) := if op_loads o then load st0 h f m0' else (st0, m0') in
            if ferr_of st1 then (st1, Err ERuntimeError) else
            let attached := is_read o || survives p m0' m1 in
            match (if attached then get_at p m1 else get_at p m0') with
            | Err e => (st1, Err e)
            | Ok t =>
                if is_read o then (st1, Ok t)
                else
                  match sync_apply o t with
                  | Ok (t', r) =>
                      let st2 := save st1 h f (if attached then set_at p t' m1 else m1) in (st2, raised st2 (Ok r))
                  | Err e =>
                      (* inside `with self._load_and_save:` — __exit__ saves whatever is in memory *)
                      match o with
                      | ODel _ | LSet _ _ | LDel _ => let st2 := save st1 h f m1 in (st2, raised st2 (Err e))
                      | _ => (st1, Err e)
                      end
                  end
            end
        end
    end.

  Inductive citem :=
  | CNew (h f : N)                              (* a new collection bound to file f, empty in memory *)
  | COp (h : N) (p : path) (o : dop)
  | CEnter (c : option N)                       (* with signac.buffered(c):  *)
  | CExit
  | CSetCap (c : N).                            (* signac.set_buffer_capacity(c) *)

  Definition set_capacity (st : cstate) (c : N) : cstate :=
    let st1 := with_cap st c in
    if (c <? bsize st1)%N then flush_all st1 else with_ferr st1 false.

  Definition cstep (st : cstate) (it : citem) : cstate * result json :=
    match it with
    | CNew h f => (set_mem st h f empty_obj, Ok JNull)
    | COp h p o => cop st h p o
    | CEnter c =>
        let st1 := with_depth st (S (depth st)) in
        match c with
        | Some n => let st2 := set_capacity (with_caps st1 (Some (cap st) :: caps st)) n in (st2, raised st2 (Ok JNull))
        | None => (with_caps st1 (None :: caps st), Ok JNull)
        end
    | CExit =>
        match depth st with
        | O => (st, Ok JNull)
        | S d =>
            let st1 := with_depth st d in
            let st2 := match d with O => flush_all st1 | S _ => with_ferr st1 false end in
            if ferr_of st2 then (st2, Err ERuntimeError)      (* BufferedError out of __exit__: the capacity is not restored *)
            else
            match caps st2 with
            | Some c :: r => let st3 := set_capacity (with_caps st2 r) c in (st3, raised st3 (Ok JNull))
            | None :: r => (with_caps st2 r, Ok JNull)
            | [] => (st2, Ok JNull)
            end
        end
    | CSetCap c => let st2 := set_capacity st c in (st2, raised st2 (Ok JNull))
    end.

  Fixpoint crun (st : cstate) (prog : list citem) : cstate * list (result json) :=
    match prog with
    | [] => (st, [])
    | it :: r => let '(st1, x) := cstep st it in let '(st2, xs) := crun st1 r in (st2, x :: xs)
    end.

  (* the unbuffered run of the same program: enter/exit/capacity markers are dropped *)
  Definition unbuffered_item (it : citem) : bool :=
    match it with CEnter _ | CExit | CSetCap _ => false | _ => true end.
  Definition strip (prog : list citem) : list citem := filter unbuffered_item prog.

  (* ------------------------------------------------------------------ the signac part *)
  (* A Job (or Project) object: which file its document lives in, and the lazily created collection. *)
  Record jstate := {
    core : cstate;
    dirs : list N;                            (* job directories that exist (file id = job)      *)
    jobs : list (N * (N * option N));         (* Job/Project object |-> (file id, _document)      *)
    nexth : N
  }.

  Definition with_core js x := {| core := x; dirs := dirs js; jobs := jobs js; nexth := nexth js |}.

  Inductive jitem :=
  | JOpen (j f : N) (prov : N)                  (* a new Job/Project object for job/project f; [prov] says how it was
                                                   obtained (init_project, get_project with an absolute or relative path,
                                                   signac.Project(relative / un-normalised path), ...).  MODELLING STEP: a
                                                   document is identified by its project + job, i.e. the buffer and the
                                                   files are keyed by the canonical absolute file name; the provenance
                                                   of the handle and the working directory do not enter (see
                                                   C05_provenance_irrelevant / C05_cwd_irrelevant); that the
                                                   implementation canonicalises is checked by the correspondence *)
  | JCwd (d : N)                                (* os.chdir(...) / `with job:` in the calling process *)
  | JOp (j : N) (p : path) (o : dop)            (* j.document<p>.<o>                                    *)
  | JRekey (j f' : N)                           (* j.statepoint = sp_f'  (directory is renamed)          *)
  | JRemove (j : N)                             (* j.remove()                                            *)
  | JMove (j : N)                               (* j.move(other_project): job n of the first project becomes
                                                   job n of the second one (file ids 10 + n; 10 = its project document) *)
  | JInit (j : N)                               (* j.init()                                              *)
  | JEnter (c : option N) | JExit | JSetCap (c : N).

  (* file 0 is the project document: the project directory always exists and is not listed *)
  (* 10 is the project document of the second project *)
  Definition add_dir (ds : list N) (f : N) : list N := if N.eqb f 0 || N.eqb f 10 || nmem f ds then ds else ds ++ [f].
  Definition del_dir (ds : list N) (f : N) : list N := filter (fun x => negb (N.eqb x f)) ds.

  (* Job.document / Project.document: create the collection on first use, after init() *)
  (* the job directory disappears with everything in it / is (re)created *)
  Definition core_rmfile (c : cstate) (f : N) : cstate :=
    with_dk (with_files c (nremove f (files c)))
      {| vers := nremove f (vers (dk c)); clock := clock (dk c); nowrite := f :: nowrite (dk c); ferr := ferr (dk c); oerr := oerr (dk c) |}.
  Definition core_mkdir (c : cstate) (f : N) : cstate :=
    with_nowrite c (filter (fun x => negb (N.eqb x f)) (nowrite (dk c))).
  Definition move_key {A} (f f' : N) (l : list (N * A)) : list (N * A) :=
    match nlookup f l with
    | Some v => nset f' v (nremove f l)
    | None => nremove f' (nremove f l)
    end.

  (* [jobs] records for every Job/Project object the KEY of its document (file name as the object spells it) *)
  Definition prov_symlink : N := 5.
  Definition key_of (f prov : N) : N := if N.eqb prov prov_symlink then (f + 100)%N else f.

  Definition resolve_doc (js : jstate) (j : N) : option (jstate * N) :=
    match nlookup j (jobs js) with
    | None => None
    | Some (k, Some h) => Some (js, h)
    | Some (k, None) =>
        let h := nexth js in
        Some ({| core := core_mkdir (fst (cstep (core js) (CNew h k))) (canon k);
                 dirs := add_dir (dirs js) (canon k);
                 jobs := nset j (k, Some h) (jobs js);
                 nexth := N.succ h |}, h)
    end.

  Definition jstep (js : jstate) (it : jitem) : jstate * result json :=
    match it with
    | JOpen j f prov => ({| core := core js; dirs := dirs js; jobs := nset j (key_of f prov, None) (jobs js); nexth := nexth js |}, Ok JNull)
    | JCwd _ => (js, Ok JNull)
    | JOp j p o =>
        match resolve_doc js j with
        | None => (js, Err EOther)
        | Some (js1, h) =>
            let '(c, r) := cstep (core js1) (COp h p o) in (with_core js1 c, r)
        end
    | JInit j =>
        match nlookup j (jobs js) with
        | None => (js, Err EOther)
        | Some (k, _) => ({| core := core_mkdir (core js) (canon k); dirs := add_dir (dirs js) (canon k); jobs := jobs js; nexth := nexth js |}, Ok JNull)
        end
    | JRekey j f' =>
        match nlookup j (jobs js) with
        | None => (js, Err EOther)
        | Some (k, d) =>
            let f := canon k in
            let k' := (f' + (k - f))%N in          (* the object spells the new name the way it spelled the old one *)
            if N.eqb f f' then (js, Ok JNull)
            else if negb (nmem f (dirs js)) then
              (* not initialised: only the id changes, lazy properties are reset *)
              ({| core := core js; dirs := dirs js; jobs := nset j (k', None) (jobs js); nexth := nexth js |}, Ok JNull)
            else if nmem f' (dirs js) then (js, Err EDestinationExists)
            else
              let c := core js in
              let c' := with_dk (with_files c (move_key f f' (files c)))
                          {| vers := move_key f f' (vers (dk c)); clock := clock (dk c);
                             nowrite := f :: filter (fun x => negb (N.eqb x f')) (nowrite (dk c)); ferr := ferr (dk c); oerr := oerr (dk c) |} in
              ({| core := c';
                  dirs := add_dir (del_dir (dirs js) f) f';
                  jobs := nset j (k', None) (jobs js); nexth := nexth js |}, Ok JNull)
        end
    | JMove j =>
        match nlookup j (jobs js) with
        | None => (js, Err EOther)
        | Some (k, d) =>
            let f := canon k in
            let f' := (f + 10)%N in
            if negb (nmem f (dirs js)) then (js, Err ERuntimeError)        (* "not initialized" *)
            else if nmem f' (dirs js) then (js, Err EDestinationExists)
            else
              let c := core js in
              let c' := with_dk (with_files c (move_key f f' (files c)))
                          {| vers := move_key f f' (vers (dk c)); clock := clock (dk c);
                             nowrite := f :: filter (fun x => negb (N.eqb x f')) (nowrite (dk c)); ferr := ferr (dk c); oerr := oerr (dk c) |} in
              (* the object takes over the destination handle's attributes: its document handle is the
                 destination's (none yet), spelled the way the destination project spells its path *)
              ({| core := c'; dirs := add_dir (del_dir (dirs js) f) f';
                  jobs := nset j (f', None) (jobs js); nexth := nexth js |}, Ok JNull)
        end
    | JRemove j =>
        match nlookup j (jobs js) with
        | None => (js, Err EOther)
        | Some (k, d) =>
            let f := canon k in
            if negb (nmem f (dirs js)) then (js, Ok JNull)
            else
              let c1 := core_rmfile (core js) f in
              match depth c1, d with
              | S _, Some h =>
                  (* inside a block self._document.clear() goes to the buffer; a forced flush may raise
                     BufferedError out of remove(); the Job object is then half updated (the harness discards it and
                     continues with a fresh object for the same job, which is what [jobs] records) *)
                  let '(c2, r) := cstep c1 (COp h [] OClear) in
                  match r with
                  | Ok _ => ({| core := c2; dirs := del_dir (dirs js) f; jobs := nset j (k, None) (jobs js); nexth := nexth js |}, Ok JNull)
                  | Err e => ({| core := c2; dirs := del_dir (dirs js) f; jobs := nset j (k, None) (jobs js); nexth := nexth js |}, Err e)
                  end
              | _, _ =>
                  (* outside blocks clear() fails with ENOENT, which remove() ignores *)
                  ({| core := c1; dirs := del_dir (dirs js) f; jobs := nset j (k, None) (jobs js); nexth := nexth js |}, Ok JNull)
              end
        end
    | JEnter c => let '(c', r) := cstep (core js) (CEnter c) in (with_core js c', r)
    | JExit => let '(c', r) := cstep (core js) CExit in (with_core js c', r)
    | JSetCap c => let '(c', r) := cstep (core js) (CSetCap c) in (with_core js c', r)
    end.
End Buffered.
