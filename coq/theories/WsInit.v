(* WsInit.v — what Job.init writes: the post-condition of the "late" path of init (state point file
   absent), shared by C02 (fresh init) and C04 (re-initialisation after the directory rename). *)
From SV Require Import Base Json MD5 Canon FS Ws WsLemmas.

Section I.
  Variable frepr : fl -> str.

  Lemma sp_access_len : forall w h, length (w_hs (fst (sp_access frepr w h))) = length (w_hs w).
  Proof.
    intros w h. unfold sp_access.
    destruct (h_cell (getH w h)); [reflexivity|].
    destruct (h_cached (getH w h)); [simpl; apply length_set_nth|].
    destruct (load_file frepr w (getH w h)); simpl; [apply length_set_nth|reflexivity].
  Qed.

  Lemma sp_access_cell : forall w h w1 ci,
    (h < length (w_hs w))%nat -> sp_access frepr w h = (w1, inl ci) ->
    h_cell (getH w1 h) = Some ci /\ h_id (getH w1 h) = h_id (getH w h) /\ h_s (getH w1 h) = h_s (getH w h).
  Proof.
    intros w h w1 ci Hlt H. unfold sp_access in H.
    destruct (h_cell (getH w h)) eqn:Ec.
    - inversion H; subst. auto.
    - destruct (h_cached (getH w h)) eqn:Ecd.
      + inversion H; subst. rewrite getH_set_H_same by exact Hlt. auto.
      + destruct (load_file frepr w (getH w h)); inversion H; subst.
        rewrite getH_set_H_same by exact Hlt. auto.
  Qed.

  Lemma sp_access_idem : forall w h ci, h_cell (getH w h) = Some ci -> sp_access frepr w h = (w, inl ci).
  Proof. intros w h ci H. unfold sp_access. rewrite H. reflexivity. Qed.

  (* other handles are not touched by an access through h *)
  Lemma sp_access_other : forall w h k, k <> h -> getH (fst (sp_access frepr w h)) k = getH w k.
  Proof.
    intros w h k Hk. unfold sp_access.
    destruct (h_cell (getH w h)); [reflexivity|].
    destruct (h_cached (getH w h)); [simpl; rewrite getH_set_H_other by auto; reflexivity|].
    destruct (load_file frepr w (getH w h)); simpl; [rewrite getH_set_H_other by auto|]; reflexivity.
  Qed.

  Lemma load_file_ext : forall w w' h h',
    w_fs w = w_fs w' -> s_root (getS w (h_s h)) = s_root (getS w' (h_s h')) -> h_id h = h_id h' ->
    load_file frepr w h = load_file frepr w' h'.
  Proof.
    intros w w' h h' Hf Hr Hi. unfold load_file, spfile, jobdir, wsp. rewrite Hf, Hr, Hi. reflexivity.
  Qed.

  (* The late path of init.  [w] is a world in which handle h can reach its cell (it owns one, or holds
     the state point in memory), the state point file and the backend's temp name are absent, and the
     job directory either exists or can be created as a leaf of an existing workspace. *)
  Lemma init_writes : forall w h w1 ci d,
    (h < length (w_hs w))%nat ->
    sp_access frepr w h = (w1, inl ci) ->
    c_data (getC w1 ci) = d -> calc_id frepr d = h_id (getH w h) -> is_null d = false ->
    let wsd := wsp (getS w (h_s (getH w h))) in
    let jd := wsd ++ [h_id (getH w h)] in
    get (w_fs w) (jd ++ [SPF]) = None ->
    get (w_fs w) (jd ++ [TMPPFX ++ SPF]) = None ->
    (get (w_fs w) jd = Some Dir \/
     (get (w_fs w) jd = None /\ forall k, (k <= length wsd)%nat -> get (w_fs w) (firstn k wsd) = Some Dir)) ->
    exists w', init frepr false false w h = (w', inl tt) /\
      (forall q, get (w_fs w') q =
         if path_eqb q (jd ++ [SPF]) then Some (File (sp_content frepr d))
         else if path_eqb q jd then Some Dir else get (w_fs w) q) /\
      (forall k, h_id (getH w' k) = h_id (getH w k) /\ h_s (getH w' k) = h_s (getH w k)
                 /\ h_cached (getH w' k) = h_cached (getH w1 k)) /\
      (forall k, s_root (getS w' k) = s_root (getS w k)).
  Proof.
    intros w h w1 ci d Hlt E1 Hd Hid Hnn wsd jd Hfile Htmp Hdir.
    destruct (sp_access_cell w h w1 ci Hlt E1) as [Hc1 [Hid1 Hs1]].
    pose proof (sp_access_fs frepr w h) as Hfs1. rewrite E1 in Hfs1. simpl in Hfs1. destruct Hfs1 as [Hfs1 _].
    assert (Hroot1 : forall k, s_root (getS w1 k) = s_root (getS w k)).
    { intro k. pose proof (sp_access_roots frepr w h k) as Hr. rewrite E1 in Hr. exact Hr. }
    assert (Hlen1 : length (w_hs w1) = length (w_hs w)).
    { pose proof (sp_access_len w h) as Hl. rewrite E1 in Hl. exact Hl. }
    assert (Hjd1 : jobdir w1 (getH w1 h) = jd).
    { unfold jobdir, wsp, jd, wsd, wsp. rewrite Hs1, Hroot1, Hid1. reflexivity. }
    assert (Hjd_ne : jd <> []) by (unfold jd; destruct wsd; discriminate).
    assert (Hfile_ne : jd ++ [SPF] <> jd) by apply snoc_neq_self.
    unfold init. rewrite E1.
    assert (Hl1 : exists e, load_file frepr w1 (getH w1 h) = inr e).
    { unfold load_file, spfile. rewrite Hjd1, Hfs1, Hfile. eauto. }
    destruct Hl1 as [e1 Hl1]. rewrite Hl1.
    rewrite (sp_access_idem w1 h ci Hc1). rewrite Hjd1, Hfs1.
    (* the directory *)
    set (f := w_fs w) in *.
    assert (Hmk : exists f2 e2,
      (if isdir f jd then FOk (f, []) else
         match makedirs f jd with FOk f0 => FOk (f0, [EvMkdir jd]) | FErr e => FErr e end) = FOk (f2, e2)
      /\ forall q, get f2 q = if path_eqb q jd then Some Dir else get f q).
    { destruct Hdir as [Hdir|[Hnone Hchain]].
      - unfold isdir. rewrite Hdir. exists f, []. split; [reflexivity|].
        intro q. destruct (path_eqb q jd) eqn:E; auto. apply path_eqb_eq in E. subst. exact Hdir.
      - unfold isdir. rewrite Hnone. unfold jd. rewrite (makedirs_leaf f wsd _ Hchain Hnone).
        eexists _, _. split; [reflexivity|]. intro q. apply get_cons_entry. exact Hjd_ne. }
    destruct Hmk as [f2 [e2 [Hmk G2]]]. rewrite Hmk.
    set (w2 := set_H (set_fs w1 f2 e2) h _).
    assert (Hh2 : getH w2 h = mkH (h_s (getH w1 h)) (h_id (getH w1 h)) (h_cached (getH w1 h)) (h_cell (getH w1 h)) true).
    { unfold w2. apply getH_set_H_same. simpl. lia. }
    assert (E3 : sp_access frepr w2 h = (w2, inl ci)).
    { apply sp_access_idem. rewrite Hh2. simpl. exact Hc1. }
    rewrite E3.
    assert (Hfile2 : spfile w2 (getH w2 h) = jd ++ [SPF]).
    { unfold spfile, jobdir. rewrite Hh2. simpl. unfold w2. rewrite getS_set_H, getS_set_fs.
      unfold wsp. rewrite Hroot1, Hs1, Hid1. reflexivity. }
    rewrite Hfile2.
    assert (Hfs2 : w_fs w2 = f2) by reflexivity. rewrite Hfs2.
    assert (Hnf : isfile f2 (jd ++ [SPF]) = false).
    { unfold isfile. rewrite G2. apply path_eqb_neq in Hfile_ne. rewrite Hfile_ne. unfold f in *. rewrite Hfile. reflexivity. }
    rewrite Hnf. simpl negb. simpl orb. simpl andb.
    assert (Hd2 : c_data (getC w2 ci) = d) by (unfold w2; rewrite getC_set_H, getC_set_fs; exact Hd).
    rewrite Hd2.
    destruct (json_write_fresh frepr f2 jd SPF d) as [f4 [Hw G4]].
    { rewrite G2, path_eqb_refl. reflexivity. }
    { rewrite G2. apply path_eqb_neq in Hfile_ne. rewrite Hfile_ne. exact Hfile. }
    { rewrite G2. assert (E : path_eqb (jd ++ [TMPPFX ++ SPF]) jd = false) by (apply path_eqb_neq, snoc_neq_self).
      rewrite E. exact Htmp. }
    rewrite Hw.
    set (w4 := set_fs w2 f4 _).
    assert (Hl4 : load_file frepr w4 (getH w2 h) = inl d).
    { unfold load_file. replace (spfile w4 (getH w2 h)) with (jd ++ [SPF]) by (symmetry; exact Hfile2).
      change (w_fs w4) with f4. rewrite G4, path_eqb_refl. simpl.
      rewrite Hh2. simpl. rewrite Hid1, Hid, str_eqb_refl, Hnn. reflexivity. }
    rewrite Hl4.
    eexists. split; [reflexivity|]. split; [|split].
    - intro q. change (w_fs (register (cell_loaded w4 ci d) (h_s (getH w2 h)) (h_id (getH w2 h)) d)) with f4.
      rewrite G4. destruct (path_eqb q (jd ++ [SPF])); [reflexivity|]. apply G2.
    - intro k. rewrite getH_register. change (getH (cell_loaded w4 ci d) k) with (getH w2 k).
      destruct (Nat.eq_dec k h) as [->|Hk].
      + rewrite Hh2. simpl. auto.
      + unfold w2. rewrite getH_set_H_other by auto. rewrite getH_set_fs.
        pose proof (sp_access_other w h k Hk) as Ho. rewrite E1 in Ho. simpl in Ho. rewrite Ho. auto.
    - intro k. rewrite register_root. change (getS (cell_loaded w4 ci d) k) with (getS w1 k). apply Hroot1.
  Qed.
End I.
