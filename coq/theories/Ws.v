(* Ws.v — the signac workspace layer on top of FS.v: sessions (Project objects with their in-memory
   state point cache), job handles, shared state point cells (_StatePointDict with its _jobs list),
   and the step programs of Job.init, _StatePointDict._save (re-key), Job.move, Project.clone,
   update_statepoint, the statepoint setter and open_job (by state point / id / id prefix), written
   after /repo/signac/job.py and project.py and synced_collections 1.0.1, INCLUDING their defects.

   Modelling choices (sound simplifications are marked):
   * A state point file holds [(dumps frepr sp, Some sp)] (bytes and parsed value, see FS.v).
   * No persistent cache file (signac_sp_cache.json.gz) is modelled: _read_cache is a no-op.
   * The lazily cached per-handle fields _path, _document, _stores are derived from (project, id):
     the code resets them for every handle of a cell whenever the id changes; a handle's
     [_cached_statepoint] is explicit state (refreshed by a re-key since fix aa8b5a9).
   * A cell's file name (self.filename) is derived from its first job's (project, id); the code
     keeps the two in step on every path modelled here.
   * Temporary files of the JSON backend are called "._TMP_<name>" (uuid normalised).
   * Python exceptions: [FExn] for signac / builtin classes, [FOs] for OSError with its errno. *)
From SV Require Export Base Json MD5 Canon FS.
From SV Require Export WsNames.

(* ------------------------------------------------------------------ Python equality on JSON values *)
Fixpoint strip2 (p : positive) (k : Z) : positive * Z :=
  match p with xO p' => strip2 p' (k + 1)%Z | _ => (p, k) end.

Definition dy_norm (m e : Z) : Z * Z :=
  match m with
  | Z0 => (0, 0)%Z
  | Zpos p => let (q, k) := strip2 p e in (Zpos q, k)
  | Zneg p => let (q, k) := strip2 p e in (Zneg q, k)
  end.

(* numeric value as a normalised dyadic; bool is a number in Python *)
Definition num_of (j : json) : option (Z * Z) :=
  match j with
  | JBool true => Some (1, 0)%Z
  | JBool false => Some (0, 0)%Z
  | JInt z => Some (dy_norm z 0)
  | JFloat f => Some (dy_norm (fst f) (snd f))
  | _ => None
  end.

Fixpoint py_eq (a b : json) {struct a} : bool :=
  match num_of a, num_of b with
  | Some x, Some y => Z.eqb (fst x) (fst y) && Z.eqb (snd x) (snd y)
  | Some _, None | None, Some _ => false
  | None, None =>
      match a, b with
      | JNull, JNull => true
      | JStr s, JStr t => str_eqb s t
      | JArr l, JArr m =>
          (fix go (l m : list json) : bool :=
             match l, m with
             | [], [] => true
             | x :: l', y :: m' => py_eq x y && go l' m'
             | _, _ => false
             end) l m
      | JObj kvs, JObj kvs' =>
          Nat.eqb (length kvs) (length kvs') &&
          (fix go (l : list (str * json)) : bool :=
             match l with
             | [] => true
             | (k, v) :: l' =>
                 match alookup k kvs' with Some v' => py_eq v v' | None => false end && go l'
             end) kvs
      | _, _ => false
      end
  end.

(* ------------------------------------------------------------------ edits of a state point *)
Inductive pstep := PKey (k : str) | PIdx (i : nat).
Inductive eact := ESetKey (k : str) (v : json) | EDelKey (k : str) | ESetIdx (i : nat) (v : json) | EAppend (v : json).

Fixpoint set_nth {A} (i : nat) (x : A) (l : list A) : list A :=
  match l, i with
  | [], _ => []
  | _ :: l', O => x :: l'
  | y :: l', S i' => y :: set_nth i' x l'
  end.

Definition has_key {A} (k : str) (l : list (str * A)) : bool :=
  match alookup k l with Some _ => true | None => false end.

Definition apply_act (a : eact) (d : json) : option json :=
  match a, d with
  | ESetKey k v, JObj kvs => Some (JObj (aset k v kvs))
  | EDelKey k, JObj kvs => if has_key k kvs then Some (JObj (aremove k kvs)) else None
  | ESetIdx i v, JArr l => if Nat.ltb i (length l) then Some (JArr (set_nth i v l)) else None
  | EAppend v, JArr l => Some (JArr (l ++ [v]))
  | _, _ => None
  end.

Fixpoint modify (p : list pstep) (f : json -> option json) (d : json) : option json :=
  match p with
  | [] => f d
  | PKey k :: p' =>
      match d with
      | JObj kvs =>
          match alookup k kvs with
          | Some x => match modify p' f x with Some x' => Some (JObj (aset k x' kvs)) | None => None end
          | None => None
          end
      | _ => None
      end
  | PIdx i :: p' =>
      match d with
      | JArr l =>
          match nth_error l i with
          | Some x => match modify p' f x with Some x' => Some (JArr (set_nth i x' l)) | None => None end
          | None => None
          end
      | _ => None
      end
  end.

(* one-line meaning of an edit: the new state point (None = the edit is ill-formed: KeyError) *)
Definition edit_sp (p : list pstep) (a : eact) (d : json) : option json := modify p (apply_act a) d.

(* dict.update on plain dicts *)
Definition dict_update (d u : json) : json :=
  match d, u with
  | JObj kvs, JObj us => JObj (fold_left (fun acc kv => aset (fst kv) (snd kv) acc) us kvs)
  | _, _ => d
  end.

(* update_statepoint's pre-check: some key of [u] exists in [d] with a value that is != (Python) *)
Definition update_conflict (d u : json) : bool :=
  match d, u with
  | JObj kvs, JObj us =>
      existsb (fun kv => match alookup (fst kv) kvs with Some x => negb (py_eq x (snd kv)) | None => false end) us
  | _, _ => false
  end.

(* SyncedDict._update / SyncedList._update (synced_collections 1.0.1): in-place merge of [nw] into the
   existing value [ex].  Values that compare == (Python) are KEPT (so 1 -> 1.0 / True is dropped),
   None over a container is ignored, and a list that is updated in place and does not shrink calls
   extend(), whose _load_and_save context SAVES THE ROOT in the middle of the update: the first
   component of the result lists the root values at those moments ([ctx] rebuilds the root). *)
(* [pre = true]: the snapshots are the root values just BEFORE each extend() (what is in memory when the
   extend's _load_and_save fails to find its lock), [pre = false]: just after (when it saves) *)
Fixpoint upd_gen (pre : bool) (ctx : json -> json) (ex nw : json) {struct nw} : list json * json :=
  if py_eq nw ex then ([], ex)
  else
    match nw with
    | JObj no =>
        match ex with
        | JObj eo =>
            let '(snaps, cur) :=
              (fix go (no : list (str * json)) (cur : list (str * json)) (snaps : list json) {struct no}
                 : list json * list (str * json) :=
                 match no with
                 | [] => (snaps, cur)
                 | (k, nv) :: no' =>
                     match alookup k cur with
                     | None => go no' (cur ++ [(k, nv)]) snaps
                     | Some ev =>
                         let '(s, v') := upd_gen pre (fun sub => ctx (JObj (aset k sub cur))) ev nv in
                         go no' (aset k v' cur) (snaps ++ s)
                     end
                 end) no eo [] in
            (snaps, JObj (filter (fun kv => has_key (fst kv) no) cur))
        | _ => ([], nw)
        end
    | JArr nl =>
        match ex with
        | JArr el =>
            let '(snaps, res) :=
              (fix go (nl el done : list json) (snaps : list json) {struct nl} : list json * list json :=
                 match nl, el with
                 | nv :: nl', ev :: el' =>
                     let '(s, v') := upd_gen pre (fun sub => ctx (JArr (done ++ sub :: el'))) ev nv in
                     go nl' el' (done ++ [v']) (snaps ++ s)
                 | [], _ :: _ => (snaps, done)
                 | _, [] => let l := done ++ nl in (snaps ++ [ctx (JArr (if pre then done else l))], l)
                 end) nl el [] [] in
            (snaps, JArr res)
        | _ => ([], nw)
        end
    | JNull => match ex with JObj _ | JArr _ => ([], ex) | _ => ([], nw) end
    | _ => ([], nw)
    end.

Definition upd_val : (json -> json) -> json -> json -> list json * json := upd_gen false.

Definition upd_root (ex nw : json) : list json * json := upd_val (fun x => x) ex nw.

(* ------------------------------------------------------------------ the world *)
Inductive ev :=
| EvMkdir (p : path) | EvWrite (p : path) | EvRename (a b : path) | EvUnlink (p : path) | EvCopytree (a b : path)
| EvRmtree (p : path).

Inductive fail := FExn (e : exn) | FOs (e : errno).
Definition res (A : Type) := (A + fail)%type.

(* [s_cread] = Project._sp_cache_read: the persistent cache file has been merged into _sp_cache *)
Record session := mkS { s_root : path; s_cache : list (str * json); s_cread : bool }.
Record handle := mkH { h_s : nat; h_id : str; h_cached : option json; h_cell : option nat; h_dk : bool }.
Record cell := mkC { c_data : json; c_jobs : list nat }.
(* [w_hd]: per handle, the job-document object it holds (Job._document; None = not created yet); shallow
   copies made afterwards share the object.  [w_ds]: the document objects (BufferedJSONAttrDict): the file
   they were created for and their in-memory data (which is what a read returns when the file is gone).
   [w_locks]: the keys of synced_collections' process-wide lock registry of the state point class
   (_StatePointDict._locks, keyed by file name): an entry is made when a _StatePointDict is constructed and is
   MOVED to the new file name when one renames; every mutation of a state point first looks its file name up
   there (KeyError when another object for the same file has renamed in the meantime). *)
Record world := mkW { w_fs : fs; w_ss : list session; w_hs : list handle; w_cs : list cell; w_tr : list ev;
                      w_hd : list (option nat); w_ds : list (path * json); w_locks : list path;
                      w_cf : list path  (* per cell: _StatePointDict.filename *) }.

Definition dS := mkS [] [] false.
Definition dH := mkH 0 [] None None false.
Definition dC := mkC (JObj []) [].
Definition getS (w : world) (i : nat) : session := nth i (w_ss w) dS.
Definition getH (w : world) (i : nat) : handle := nth i (w_hs w) dH.
Definition getC (w : world) (i : nat) : cell := nth i (w_cs w) dC.

Definition set_fs (w : world) (f : fs) (e : list ev) : world :=
  mkW f (w_ss w) (w_hs w) (w_cs w) (w_tr w ++ e) (w_hd w) (w_ds w) (w_locks w) (w_cf w).
Definition set_S (w : world) (i : nat) (s : session) : world :=
  mkW (w_fs w) (set_nth i s (w_ss w)) (w_hs w) (w_cs w) (w_tr w) (w_hd w) (w_ds w) (w_locks w) (w_cf w).
Definition set_H (w : world) (i : nat) (h : handle) : world :=
  mkW (w_fs w) (w_ss w) (set_nth i h (w_hs w)) (w_cs w) (w_tr w) (w_hd w) (w_ds w) (w_locks w) (w_cf w).
Definition set_C (w : world) (i : nat) (c : cell) : world :=
  mkW (w_fs w) (w_ss w) (w_hs w) (set_nth i c (w_cs w)) (w_tr w) (w_hd w) (w_ds w) (w_locks w) (w_cf w).
Definition add_S (w : world) (s : session) : world :=
  mkW (w_fs w) (w_ss w ++ [s]) (w_hs w) (w_cs w) (w_tr w) (w_hd w) (w_ds w) (w_locks w) (w_cf w).
Definition add_H (w : world) (h : handle) : world :=
  mkW (w_fs w) (w_ss w) (w_hs w ++ [h]) (w_cs w) (w_tr w) (w_hd w ++ [None]) (w_ds w) (w_locks w) (w_cf w).
Definition add_C (w : world) (c : cell) : world :=
  mkW (w_fs w) (w_ss w) (w_hs w) (w_cs w ++ [c]) (w_tr w) (w_hd w) (w_ds w) (w_locks w) (w_cf w ++ [[]]).
Definition getCF (w : world) (ci : nat) : path := nth ci (w_cf w) [].
Definition set_CF (w : world) (ci : nat) (p : path) : world :=
  mkW (w_fs w) (w_ss w) (w_hs w) (w_cs w) (w_tr w) (w_hd w) (w_ds w) (w_locks w) (set_nth ci p (w_cf w)).
(* a new cell together with its file name *)
Definition add_CF (w : world) (c : cell) (p : path) : world :=
  mkW (w_fs w) (w_ss w) (w_hs w) (w_cs w ++ [c]) (w_tr w) (w_hd w) (w_ds w) (w_locks w) (w_cf w ++ [p]).
Definition getHD (w : world) (h : nat) : option nat := nth h (w_hd w) None.
Definition getD (w : world) (d : nat) : path * json := nth d (w_ds w) ([], JObj []).
Definition set_HD (w : world) (h : nat) (o : option nat) : world :=
  mkW (w_fs w) (w_ss w) (w_hs w) (w_cs w) (w_tr w) (set_nth h o (w_hd w)) (w_ds w) (w_locks w) (w_cf w).
Definition set_D (w : world) (d : nat) (x : path * json) : world :=
  mkW (w_fs w) (w_ss w) (w_hs w) (w_cs w) (w_tr w) (w_hd w) (set_nth d x (w_ds w)) (w_locks w) (w_cf w).
Definition add_D (w : world) (x : path * json) : world :=
  mkW (w_fs w) (w_ss w) (w_hs w) (w_cs w) (w_tr w) (w_hd w) (w_ds w ++ [x]) (w_locks w) (w_cf w).
Definition lock_add (w : world) (p : path) : world :=
  mkW (w_fs w) (w_ss w) (w_hs w) (w_cs w) (w_tr w) (w_hd w) (w_ds w) (p :: w_locks w) (w_cf w).
Definition lock_has (w : world) (p : path) : bool := existsb (path_eqb p) (w_locks w).
Definition lock_move (w : world) (old new : path) : world :=
  mkW (w_fs w) (w_ss w) (w_hs w) (w_cs w) (w_tr w) (w_hd w) (w_ds w)
      (new :: filter (fun q => negb (path_eqb old q)) (w_locks w)) (w_cf w).

Definition wsp (s : session) : path := s_root s ++ [WS].
Definition jobdir (w : world) (h : handle) : path := wsp (getS w (h_s h)) ++ [h_id h].
Definition spfile (w : world) (h : handle) : path := jobdir w h ++ [SPF].
Definition docfile (w : world) (h : handle) : path := jobdir w h ++ [DOCF].

Definition register (w : world) (si : nat) (i : str) (sp : json) : world :=
  let s := getS w si in set_S w si (mkS (s_root s) (aset i sp (s_cache s)) (s_cread s)).

(* directory names that project._job_dirs yields: JOB_ID_REGEX.fullmatch (since fix 5a38a4a), i.e. exactly 32
   lower-case hex characters.  (The first conjunct is implied by the second; it is kept because other files
   destruct the definition to obtain 32 <= length.) *)
Definition id_match (n : str) : bool :=
  Nat.leb 32 (length n) && (Nat.eqb (length n) 32 && forallb lower_hex n).

Definition job_dirs (f : fs) (wsd : path) : list str :=
  match listdir f wsd with
  | FOk names => filter id_match names
  | FErr _ => []
  end.

(* ------------------------------------------------------------------ operations and observations *)
(* one job as seen through a fresh Project: id, statepoint() (None = raises), document() (None = raises),
   recursive listing of the other files *)
Record jview := mkJV { v_id : str; v_sp : option json; v_doc : option json; v_files : list (path * list N) }.

(* what a freshly started process does with the handles it unpickled (k = 0 / 1) *)
Inductive fop :=
| FEdit (k : nat) (p : list pstep) (a : eact) | FInit (k : nat) | FDocSet (k : nat) (key : str) (v : json)
| FSp (k : nat) | FCached (k : nat) | FIdPath (k : nat).

Inductive op :=
| ONewSession (root : path)
| OOpenSp (s : nat) (sp : json)
| OOpenId (s : nat) (i : str)
| OInit (h : nat) (force : bool)
| OSp (h : nat)
| OCached (h : nat)
| OIdPath (h : nat)
| ODoc (h : nat)
| ODocReset (h : nat) (d : json)
| OWriteFile (h : nat) (rel : path) (bytes : list N)
| OPlantDir (p : path)
| OPlantFile (p : path) (c : content)
| OIds (s : nat)
| OLen (s : nat)
| OContains (s : nat) (h : nat)
| OCopy (h : nat)
| ODeepCopy (h : nat)
| OPickle (h : nat)
| OEdit (h : nat) (p : list pstep) (a : eact)
| OAssign (h : nat) (sp : json)
| OUpdateSp (h : nat) (u : json) (overwrite : bool)
| OMove (h : nat) (s : nat)
| OClone (s : nat) (h : nat)
| OTree
| OQuiet       (* "no file-system mutation at all since the previous OQuiet" *)
(* --- added for C03 *)
| ORemove (h : nat)
| OClear (h : nat)
| OReset (h : nat)
| ODocSet (h : nat) (k : str) (v : json)
| OUpdateCache (s : nat)
| OCheck (s : nat)
| OSnap        (* raw walk of all workspaces + the view through a fresh Project of every root + check() *)
(* --- pickling several handles in ONE pickle (they keep sharing what they shared) *)
| OPickle2 (h1 h2 : nat)                       (* restored in this process: two new handles *)
| OFresh (h1 : nat) (h2 : option nat) (fs : list fop)    (* restored in a freshly started process, which then runs
                                                           [fs] through the restored handles (0, 1) and exits *)
(* --- `with job:` / Job.open(): init(validate_statepoint=False), then chdir into the job directory (the working
   directory itself is not part of the model; leaving the block has no effect in the model) *)
| OEnter (h : nat)
(* --- done to the file system behind signac's back (like OPlantDir / OPlantFile): a directory tree is removed, e.g. the
   whole workspace directory of a project whose Project object lives on *)
| OWipe (p : path).

Inductive oval :=
| VUnit | VBool (b : bool) | VNum (n : N) | VStr (s : str) | VStrs (l : list str) | VJson (j : json)
| VIdPath (i : str) (p : path) | VExn (e : exn) | VTree (t : fs) | VTreeSame
| VSnap (t : fs) (vs : list (path * list jview * bool)) | VSnapSame | VOptNum (n : option N)
| VList (l : list oval).


Section WS.
  Variable frepr : fl -> str.

  Definition sp_content (v : json) : content := mkContent (dumps frepr v) (Some v).

  (* the JSON backend's write: temp file in the same directory, then os.replace *)
  Definition tmp_of (p : path) : path := parent p ++ [TMPPFX ++ last p []].
  Definition json_write (f : fs) (p : path) (v : json) : fres fs :=
    match write_file f (tmp_of p) (sp_content v) with
    | FErr e => FErr e
    | FOk f1 => rename f1 (tmp_of p) p
    end.

  Definition is_null (v : json) : bool := match v with JNull => true | _ => false end.

  (* _load_from_resource + the validation of _StatePointDict.load; reads only *)
  Definition load_file (w : world) (h : handle) : res json :=
    match get (w_fs w) (spfile w h) with
    | None => inr (FExn EJobsCorrupted)           (* ENOENT -> None -> calc_id(None) != id *)
    | Some Dir => inr (FOs EISDIR)
    | Some (File c) =>
        match c_json c with
        | None => inr (FExn EJobsCorrupted)       (* JSONDecodeError *)
        | Some v =>
            (* "if data is None or calc_id(data) != job_id" (fix ae33aa8): a file holding null never validates *)
            if str_eqb (calc_id frepr v) (h_id h) && negb (is_null v) then inl v else inr (FExn EJobsCorrupted)
        end
    end.

  (* with self._suspend_sync: self._update(data) *)
  Definition cell_loaded (w : world) (ci : nat) (v : json) : world :=
    let c := getC w ci in set_C w ci (mkC (snd (upd_root (c_data c) v)) (c_jobs c)).

  (* Job.statepoint (property getter): creates the cell lazily *)
  Definition sp_access (w : world) (hi : nat) : world * res nat :=
    let h := getH w hi in
    match h_cell h with
    | Some ci => (w, inl ci)
    | None =>
        let ci := length (w_cs w) in
        match h_cached h with
        | Some sp =>
            let w1 := lock_add (add_CF w (mkC sp [hi]) (spfile w h)) (spfile w h) in
            (set_H w1 hi (mkH (h_s h) (h_id h) (h_cached h) (Some ci) (h_dk h)), inl ci)
        | None =>
            match load_file w h with
            | inr e => (lock_add w (spfile w h), inr e)   (* the _StatePointDict was constructed (lock entry) before load() raised *)
            | inl v =>
                let w1 := lock_add (add_CF w (mkC v [hi]) (spfile w h)) (spfile w h) in
                let w2 := register w1 (h_s h) (h_id h) v in
                (set_H w2 hi (mkH (h_s h) (h_id h) (Some v) (Some ci) (h_dk h)), inl ci)
            end
        end
    end.

  (* Job.init(force, validate_statepoint=True).  [susp]: the call happens while the cell's
     _suspend_sync counter is raised, so that super()._save() inside save() writes nothing. *)
  Definition init (susp force : bool) (w : world) (hi : nat) : world * res unit :=
    let '(w1, r) := sp_access w hi in
    let early :=
      match r with
      | inl ci => match load_file w1 (getH w1 hi) with inl v => Some (cell_loaded w1 ci v) | inr _ => None end
      | inr _ => None
      end in
    match early with
    | Some w2 => (w2, inl tt)
    | None =>
      (* "self.statepoint" (fix 270ca63): a handle whose state point cannot be loaded fails before anything is created *)
      match sp_access w1 hi with
      | (w1', inr e) => (w1', inr e)
      | (w1, inl _) =>
        let h := getH w1 hi in
        let jd := jobdir w1 h in
        let mk := if isdir (w_fs w1) jd then FOk (w_fs w1, []) else
                    match makedirs (w_fs w1) jd with FOk f => FOk (f, [EvMkdir jd]) | FErr e => FErr e end in
        match mk with
        | FErr e => (w1, inr (FOs e))
        | FOk (f2, e2) =>
            let w2 := set_H (set_fs w1 f2 e2) hi (mkH (h_s h) (h_id h) (h_cached h) (h_cell h) true) in
            let '(w3, r3) := sp_access w2 hi in
            match r3 with
            | inr e => (w3, inr e)
            | inl ci =>
                let h3 := getH w3 hi in
                let file := spfile w3 h3 in
                let wr :=
                  if (force || negb (isfile (w_fs w3) file)) && negb susp then
                    match json_write (w_fs w3) file (c_data (getC w3 ci)) with
                    | FOk f => FOk (f, [EvWrite (tmp_of file); EvRename (tmp_of file) file])
                    | FErr e => FErr e
                    end
                  else FOk (w_fs w3, []) in
                match wr with
                | FErr e => (w3, inr (FOs e))
                | FOk (f4, e4) =>
                    let w4 := set_fs w3 f4 e4 in
                    match load_file w4 h3 with
                    | inr e => (w4, inr e)
                    | inl v => (register (cell_loaded w4 ci v) (h_s h3) (h_id h3) v, inl tt)
                    end
                end
            end
        end
      end
    end.

  (* ids of all handles of a cell := new id *)
  Fixpoint set_ids (w : world) (js : list nat) (i : str) : world :=
    match js with
    | [] => w
    | j :: js' =>
        let h := getH w j in
        set_ids (set_H w j (mkH (h_s h) i (h_cached h) (h_cell h) (h_dk h))) js' i
    end.

  Definition dest_exists_errno (e : errno) : bool :=
    match e with EEXIST | ENOTEMPTY | EACCES => true | _ => false end.

  (* _cached_statepoint of all handles of a cell := the cell's data (fix aa8b5a9) *)
  Fixpoint set_cached (w : world) (js : list nat) (d : json) : world :=
    match js with
    | [] => w
    | j :: js' =>
        let h := getH w j in
        set_cached (set_H w j (mkH (h_s h) (h_id h) (Some d) (h_cell h) (h_dk h))) js' d
    end.

  (* _initialize_lazy_properties: the handles drop their document objects *)
  Definition reset_docs (w : world) (js : list nat) : world := fold_left (fun w j => set_HD w j None) js w.

  (* _StatePointDict._save: the re-key.  [susp]: _suspend_sync is raised (a nested collection saves the
     root in the middle of an in-place _update): since fix 3806f72 the method returns at once. *)
  Definition sp_save (susp : bool) (w : world) (ci : nat) : world * res unit :=
    let c := getC w ci in
    let h0 := getH w (hd 0%nat (c_jobs c)) in       (* job = next(iter(self._jobs)) *)
    let old_id := h_id h0 in
    let new_id := calc_id frepr (c_data c) in
    if susp then (w, inl tt)
    else if str_eqb old_id new_id then (w, inl tt)
    else
      let wsd := wsp (getS w (h_s h0)) in
      let fname := getCF w ci in                      (* self.filename *)
      let tmp := parent fname ++ [last fname [] ++ [126%N]] in   (* self.filename + "~" *)
      let phase1 : world * res bool :=
        match rename (w_fs w) fname tmp with
        | FErr ENOENT => (w, inl false)
        | FErr e =>
            (* fix 8529336: nothing was moved; the in-memory data is reloaded from the file (if it loads) *)
            (match get (w_fs w) fname with
             | Some (File cf) => match c_json cf with
                                 | Some v => set_C w ci (mkC (snd (upd_root (c_data c) v)) (c_jobs c))
                                 | None => w end
             | _ => w
             end, inr (FOs e))
        | FOk f1 =>
            let w1 := set_fs w f1 [EvRename fname tmp] in
            match rename f1 (wsd ++ [old_id]) (wsd ++ [new_id]) with
            | FOk f2 => (set_fs w1 f2 [EvRename (wsd ++ [old_id]) (wsd ++ [new_id])], inl true)
            | FErr e =>
                match rename f1 tmp fname with          (* rollback *)
                | FErr e' => (w1, inr (FOs e'))
                | FOk f3 =>
                    (* fix 5e72814: "with self._suspend_sync: self._update(self._load_from_resource())" *)
                    let back := match get f3 fname with
                                | Some (File cf) => match c_json cf with
                                                    | Some v => snd (upd_root (c_data c) v)
                                                    | None => c_data c end
                                | _ => c_data c
                                end in
                    let w3 := set_C (set_fs w1 f3 [EvRename tmp fname]) ci (mkC back (c_jobs c)) in
                    if dest_exists_errno e then (w3, inr (FExn EDestinationExists))
                    else match e with ENOENT => (w3, inl false) | _ => (w3, inr (FOs e)) end
                end
            end
        end in
      match phase1 with
      | (w1, inr e) => (w1, inr e)
      | (w1, inl should_init) =>
          let w2 := reset_docs (set_cached (set_ids w1 (c_jobs c) new_id) (c_jobs c) (c_data c)) (c_jobs c) in
          let hl := last (c_jobs c) 0%nat in          (* the loop variable after "for job in self._jobs" *)
          let newfile := spfile w2 (getH w2 hl) in
          let tmp' := jobdir w2 (getH w2 hl) ++ [SPT] in
          let un := match unlink (w_fs w2) tmp' with
                    | FOk f => FOk (f, [EvUnlink tmp'])
                    | FErr ENOENT => FOk (w_fs w2, [])
                    | FErr e => FErr e
                    end in
          match un with
          | FErr e => (w2, inr (FOs e))
          | FOk (f3, e3) =>
              let w3 := set_CF (lock_move (set_fs w2 f3 e3) fname newfile) ci newfile in
              if should_init then init susp false w3 hl else (w3, inl tt)
          end
      end.

  (* self.filename of a cell *)
  Definition cell_file (w : world) (ci : nat) : path := getCF w ci.

  Definition set_data (w : world) (ci : nat) (d : json) : world :=
    set_C w ci (mkC d (c_jobs (getC w ci))).

  (* the root saves triggered in the middle of _update (under _suspend_sync) *)
  Fixpoint mid_saves (w : world) (ci : nat) (snaps : list json) : world * res unit :=
    match snaps with
    | [] => (w, inl tt)
    | s :: rest =>
        match sp_save true (set_data w ci s) ci with
        | (w1, inl _) => mid_saves w1 ci rest
        | (w1, inr e) => (w1, inr e)
        end
    end.

  (* cell.reset(new): _update (the root saves it triggers in its middle return at once, see sp_save) and
     one save at the end.  [mid_saves] is kept for reference: it is the identity on everything but the
     cell's data, which the final [set_data] overwrites. *)
  Definition cell_reset (w : world) (ci : nat) (new : json) : world * res unit :=
    let '(snaps, final) := upd_root (c_data (getC w ci)) new in
    sp_save false (set_data w ci final) ci.

  (* Job.statepoint = new (setter) *)
  Definition assign (w : world) (hi : nat) (new : json) : world * res unit :=
    let h := getH w hi in
    let '(w1, ci) :=
      match h_cell h with
      | Some ci => (w, ci)
      | None =>
          let ci := length (w_cs w) in
          (set_H (lock_add (add_CF w (mkC (JObj []) [hi]) (spfile w h)) (spfile w h)) hi
                 (mkH (h_s h) (h_id h) (h_cached h) (Some ci) (h_dk h)), ci)
      end in
    if lock_has w1 (cell_file w1 ci) then
      match cell_reset w1 ci new with
      | (w2, inr e) => (w2, inr e)
      (* fix 64999d6: _register(self.id, self.statepoint()) - the merged in-memory data, not the caller's object *)
      | (w2, inl _) => let h2 := getH w2 hi in (register w2 (h_s h2) (h_id h2) (c_data (getC w2 ci)), inl tt)
      end
    else
      (* reset(): _update has already merged the new data in memory when _thread_lock raises KeyError *)
      (* ... unless a list is extended on the way: that extend() itself looks the lock up first, and the update
         stops there, half done *)
      (set_data w1 ci (match fst (upd_gen true (fun x => x) (c_data (getC w1 ci)) new) with
                       | half :: _ => half
                       | [] => snd (upd_root (c_data (getC w1 ci)) new)
                       end), inr (FExn EKeyError)).

  (* Job.update_statepoint(update, overwrite) *)
  Definition update_statepoint (w : world) (hi : nat) (u : json) (overwrite : bool) : world * res unit :=
    match sp_access w hi with
    | (w1, inr e) => (w1, inr e)
    | (w1, inl ci) =>
        let d := c_data (getC w1 ci) in
        if negb overwrite && update_conflict d u then (w1, inr (FExn EKeyError))
        else assign w1 hi (dict_update d u)
    end.

  (* job.sp[...]... = v, del job.sp[...], job.sp[...].append(v) *)
  Definition edit (w : world) (hi : nat) (p : list pstep) (a : eact) : world * res unit :=
    match sp_access w hi with
    | (w1, inr e) => (w1, inr e)
    | (w1, inl ci) =>
        if lock_has w1 (cell_file w1 ci) then
          match edit_sp p a (c_data (getC w1 ci)) with
          | None => (w1, inr (FExn EKeyError))
          | Some d' => sp_save false (set_data w1 ci d') ci
          end
        else (w1, inr (FExn EKeyError))      (* _load_and_save.__enter__: _locks[filename] *)
    end.

  (* project.open_job(statepoint) *)
  Definition open_sp (w : world) (si : nat) (sp : json) : world * nat :=
    (add_H w (mkH si (calc_id frepr sp) (Some sp) None false), length (w_hs w)).

  (* the id / prefix resolution of project.open_job(id=...) after a cache miss; reads only.
     [ids] is the directory listing (project._find_job_ids()), [present] is os.path.exists. *)
  Definition resolve_ids (ids : list str) (present : str -> bool) (i : str) : res str :=
    if Nat.ltb (length i) 32 then
      match filter (str_prefix i) ids with
      | [m] => inl m
      | [] => inr (FExn EKeyError)
      | _ => inr (FExn ELookupError)
      end
    else if present i then inl i else inr (FExn EKeyError).

  Definition resolve (f : fs) (wsd : path) (i : str) : res str :=
    resolve_ids (job_dirs f wsd) (fun x => id_match x && exists_ f (wsd ++ [x])) i.   (* fix b6340e2 *)

  Definition open_id (w : world) (si : nat) (i : str) : world * res nat :=
    let s := getS w si in
    match alookup i (s_cache s) with
    | Some sp => (add_H w (mkH si i (Some sp) None false), inl (length (w_hs w)))
    | None =>
        match resolve (w_fs w) (wsp s) i with
        | inr e => (w, inr e)
        (* Job.__init__(id_=m): _cached_statepoint = project._sp_cache[m] if present (a prefix resolves to a full id) *)
        | inl m => (add_H w (mkH si m (alookup m (s_cache s)) None true), inl (length (w_hs w)))
        end
    end.

  (* Project(root): creates the workspace directory when missing *)
  Definition new_session (w : world) (root : path) : world * res nat :=
    let wsd := root ++ [WS] in
    let mk := if isdir (w_fs w) wsd then FOk (w_fs w, []) else
                match makedirs (w_fs w) wsd with FOk f => FOk (f, [EvMkdir wsd]) | FErr e => FErr e end in
    match mk with
    | FErr e => (w, inr (FOs e))
    | FOk (f, e) => (add_S (set_fs w f e) (mkS root [] false), inl (length (w_ss w)))
    end.

  Definition add_job (w : world) (ci hj : nat) : world :=
    let c := getC w ci in set_C w ci (mkC (c_data c) (c_jobs c ++ [hj])).

  (* copy.copy(job): __getstate__ first instantiates the state point of the ORIGINAL (fix 0894ce6; for a handle
     opened by id with a cache miss this loads and validates the file, and may raise before any copy exists);
     __setstate__ then shares __dict__ (hence the cell and the document object) and appends itself to _jobs *)
  Definition copy_handle (w : world) (hi : nat) : world * res nat :=
    match sp_access w hi with
    | (w1, inr e) => (w1, inr e)
    | (w1, inl ci) =>
        let hj := length (w_hs w1) in
        let w2 := set_HD (add_H w1 (getH w1 hi)) hj (getHD w1 hi) in
        (add_job w2 ci hj, inl hj)
    end.

  (* copy.deepcopy(job) / pickle round trip: own project object, own cell *)
  Definition deep_handle0 (pickle : bool) (w : world) (hi : nat) : world * res nat :=
    let h := getH w hi in
    let hj := length (w_hs w) in
    let sj := length (w_ss w) in
    let w1 := add_S w (getS w (h_s h)) in
    let '(w2, cell') :=
      match h_cell h with
      | Some ci => (add_CF w1 (mkC (c_data (getC w1 ci)) [hj]) (getCF w1 ci), Some (length (w_cs w1)))
      | None => (w1, None)
      end in
    let w3' := add_H w2 (mkH sj (h_id h) (h_cached h) cell' (h_dk h)) in
    let w3 := match getHD w hi with
              | Some di => set_HD (add_D w3' (getD w di)) hj (Some (length (w_ds w3')))
              | None => w3'
              end in
    (* [pickle]: since fix cefd325 __setstate__ no longer touches the state point - the restored handle is
       already the one entry of its restored state point's _jobs - so unpickling is total *)
    (w3, inl hj).

  (* pickle.dumps(job) goes through __getstate__ (state point of the original instantiated first, fix 0894ce6);
     copy.deepcopy uses __deepcopy__, which does not *)
  Definition deep_handle (pickle : bool) (w : world) (hi : nat) : world * res nat :=
    if pickle then
      match sp_access w hi with
      | (w1, inr e) => (w1, inr e)
      | (w1, inl _) => deep_handle0 true w1 hi
      end
    else deep_handle0 false w hi.

  (* Job.move(project) *)
  Definition move (w : world) (hi sj : nat) : world * res unit :=
    match sp_access w hi with
    | (w1, inr e) => (w1, inr e)
    | (w1, inl ci) =>
        let h := getH w1 hi in
        let d := c_data (getC w1 ci) in
        let did := calc_id frepr d in
        let wsd := wsp (getS w1 sj) in
        let mk := if isdir (w_fs w1) wsd then FOk (w_fs w1, []) else
                    match makedirs (w_fs w1) wsd with FOk f => FOk (f, [EvMkdir wsd]) | FErr e => FErr e end in
        match mk with
        | FErr e => (w1, inr (FOs e))
        | FOk (f2, e2) =>
            let w2 := set_fs w1 f2 e2 in
            match rename f2 (jobdir w2 h) (wsd ++ [did]) with
            | FErr ENOENT => (w2, inr (FExn ERuntimeError))
            | FErr EXDEV => (w2, inr (FExn ERuntimeError))
            | FErr e => if dest_exists_errno e then (w2, inr (FExn EDestinationExists)) else (w2, inr (FOs e))
            | FOk f3 =>
                let w3 := set_fs w2 f3 [EvRename (jobdir w2 h) (wsd ++ [did])] in
                (* fix d38783c: the handle leaves the _jobs list of its old state point object *)
                let cc := getC w3 ci in
                let w3' := set_C w3 ci (mkC (c_data cc) (filter (fun j => negb (Nat.eqb j hi)) (c_jobs cc))) in
                (register (set_HD (set_H w3' hi (mkH sj did (Some d) None false)) hi None) sj did d, inl tt)
            end
        end
    end.

  (* Project.clone(job) into session sj *)
  Definition clone (w : world) (sj hi : nat) : world * res nat :=
    match sp_access w hi with
    | (w1, inr e) => (w1, inr e)
    | (w1, inl ci) =>
        let h := getH w1 hi in
        let d := c_data (getC w1 ci) in
        let did := calc_id frepr d in
        let dst := wsp (getS w1 sj) ++ [did] in
        match copytree (w_fs w1) (jobdir w1 h) dst with
        | FErr EEXIST => (w1, inr (FExn EDestinationExists))
        | FErr ENOENT => (w1, inr (FExn EValueError))
        | FErr e => (w1, inr (FOs e))
        | FOk f2 =>
            let w2 := set_fs w1 f2 [EvCopytree (jobdir w1 h) dst] in
            (add_H w2 (mkH sj did (Some d) None false), inl (length (w_hs w2)))
        end
    end.

  (* Job.init(validate_statepoint=False), the prologue of Job.document *)
  Definition doc_init (w : world) (hi : nat) : world * res unit :=
    let h := getH w hi in
    if h_dk h then (w, inl tt)
    else if isdir (w_fs w) (jobdir w h) then
      (set_H w hi (mkH (h_s h) (h_id h) (h_cached h) (h_cell h) true), inl tt)
    else init false false w hi.

  (* ---- job documents: Job._document is a BufferedJSONAttrDict created lazily for the path the handle has at
     that moment; a read loads the file if it exists and otherwise returns what the object has in memory *)
  Definition doc_access (w : world) (hi : nat) : world * res nat :=
    match getHD w hi with
    | Some di => (w, inl di)
    | None =>
        match doc_init w hi with
        | (w1, inr e) => (w1, inr e)
        | (w1, inl _) =>
            let di := length (w_ds w1) in
            (* the constructor of the document object makes its entry in the (per-process, per-class) lock registry *)
            (lock_add (set_HD (add_D w1 (docfile w1 (getH w1 hi), JObj [])) hi (Some di)) (docfile w1 (getH w1 hi)), inl di)
        end
    end.

  Definition doc_load (w : world) (di : nat) : world * res unit :=
    let '(p, d) := getD w di in
    match get (w_fs w) p with
    | None => (w, inl tt)
    | Some Dir => (w, inr (FOs EISDIR))
    | Some (File c) =>
        match c_json c with Some v => (set_D w di (p, v), inl tt) | None => (w, inr (FExn EValueError)) end
    end.

  Definition doc_save (w : world) (di : nat) : world * res unit :=
    let '(p, d) := getD w di in
    (* every write first looks the file name up in the lock registry (missing for an object that was unpickled in a
       freshly started process) *)
    if negb (lock_has w p) then (w, inr (FExn EKeyError)) else
    match json_write (w_fs w) p d with
    | FErr e => (w, inr (FOs e))
    | FOk f => (set_fs w f [EvWrite (tmp_of p); EvRename (tmp_of p) p], inl tt)
    end.

  Definition doc_put (w : world) (di : nat) (d : json) : world := set_D w di (fst (getD w di), d).

  (* job.document() *)
  Definition doc_read (w : world) (hi : nat) : world * res json :=
    match doc_access w hi with
    | (w1, inr e) => (w1, inr e)
    | (w1, inl di) =>
        match doc_load w1 di with
        | (w2, inr e) => (w2, inr e)
        | (w2, inl _) => (w2, inl (snd (getD w2 di)))
        end
    end.

  (* job.document = d *)
  Definition doc_reset (w : world) (hi : nat) (d : json) : world * res unit :=
    match doc_access w hi with
    | (w1, inr e) => (w1, inr e)
    | (w1, inl di) => doc_save (doc_put w1 di d) di
    end.

  (* job.document[k] = v *)
  Definition doc_set (w : world) (hi : nat) (k : str) (v : json) : world * res unit :=
    match doc_access w hi with
    | (w1, inr e) => (w1, inr e)
    | (w1, inl di) =>
        match doc_load w1 di with
        | (w2, inr e) => (w2, inr e)
        | (w2, inl _) =>
            let d' := match snd (getD w2 di) with JObj kvs => JObj (aset k v kvs) | x => x end in
            doc_save (doc_put w2 di d') di
        end
    end.

  Definition set_dk (w : world) (hi : nat) (b : bool) : world :=
    let h := getH w hi in set_H w hi (mkH (h_s h) (h_id h) (h_cached h) (h_cell h) b).

  (* Job.open(): init(validate_statepoint=False) trusts _directory_known, else an existing directory, else does the full
     init(); os.chdir(self.path) then fails with FileNotFoundError if the directory is not there *)
  Definition enter_job (w : world) (hi : nat) : world * res unit :=
    let h := getH w hi in
    let '(w1, r) :=
      if h_dk h then (w, inl tt)
      else if isdir (w_fs w) (jobdir w h) then (set_dk w hi true, inl tt)
      else init false false w hi in
    match r with
    | inr e => (w1, inr e)
    | inl _ => if isdir (w_fs w1) (jobdir w1 (getH w1 hi)) then (w1, inl tt) else (w1, inr (FOs ENOENT))
    end.

  (* Job.remove() *)
  Definition remove_job (w : world) (hi : nat) : world * res unit :=
    let h := getH w hi in
    match rmtree (w_fs w) (jobdir w h) with
    | FErr ENOENT => (set_dk w hi false, inl tt)
    | FErr e => (w, inr (FOs e))
    | FOk f =>
        let w1 := set_fs w f [EvRmtree (jobdir w h)] in
        match getHD w1 hi with
        | None => (set_dk w1 hi false, inl tt)
        | Some di =>
            (* self._document.clear() (ENOENT ignored); self._document = None *)
            match doc_save (doc_put w1 di (JObj [])) di with
            | (w2, inl _) | (w2, inr (FOs ENOENT)) => (set_dk (set_HD w2 hi None) hi false, inl tt)
            | (w2, inr e) => (w2, inr e)
            end
        end
    end.

  (* Job.clear(): delete everything but the two signac files, then document.clear(); ENOENT swallowed *)
  Fixpoint clear_entries (f : fs) (jd : path) (names : list str) (tr : list ev) : fres (fs * list ev) :=
    match names with
    | [] => FOk (f, tr)
    | n :: rest =>
        if str_eqb n SPF || str_eqb n DOCF then clear_entries f jd rest tr
        else
          let p := jd ++ [n] in
          if isfile f p then
            match unlink f p with FOk f1 => clear_entries f1 jd rest (tr ++ [EvUnlink p]) | FErr e => FErr e end
          else if isdir f p then
            match rmtree f p with FOk f1 => clear_entries f1 jd rest (tr ++ [EvRmtree p]) | FErr e => FErr e end
          else clear_entries f jd rest tr
    end.

  Definition swallow_enoent (r : world * res unit) : world * res unit :=
    match r with (w, inr (FOs ENOENT)) => (w, inl tt) | _ => r end.

  Definition clear_job (w : world) (hi : nat) : world * res unit :=
    let jd := jobdir w (getH w hi) in
    swallow_enoent
      match listdir (w_fs w) jd with
      | FErr e => (w, inr (FOs e))
      | FOk names =>
          match clear_entries (w_fs w) jd names [] with
          | FErr e => (w, inr (FOs e))
          | FOk (f, tr) =>
              let w1 := set_fs w f tr in
              match doc_access w1 hi with
              | (w2, inr e) => (w2, inr e)
              | (w2, inl di) => doc_save (doc_put w2 di (JObj [])) di
              end
          end
      end.

  (* Job.reset() = clear(); init() *)
  Definition reset_job (w : world) (hi : nat) : world * res unit :=
    match clear_job w hi with
    | (w1, inr e) => (w1, inr e)
    | (w1, inl _) => init false false w1 hi
    end.

  (* ---- the persistent state point cache (.signac/statepoint_cache.json.gz): its node carries the decoded
     mapping in c_json, the model never looks at its (gzip, time-stamped) bytes *)
  Definition cache_path (s : session) : path := s_root s ++ [DOTSIG; CACHEFN].
  Definition cache_file (f : fs) (s : session) : option (list (str * json)) :=
    match get f (cache_path s) with
    | Some (File c) => match c_json c with Some (JObj kvs) => Some kvs | _ => None end
    | _ => None
    end.
  Definition merge_cache (c new : list (str * json)) : list (str * json) :=
    fold_left (fun acc kv => aset (fst kv) (snd kv) acc) new c.

  (* "if not self._sp_cache_read: self._read_cache(); self._sp_cache_read = True" *)
  Definition ensure_read (w : world) (si : nat) : world :=
    let s := getS w si in
    if s_cread s then w
    else
      let c := match cache_file (w_fs w) s with Some kvs => merge_cache (s_cache s) kvs | None => s_cache s end in
      set_S w si (mkS (s_root s) c true).

  (* project._get_statepoint_from_workspace(id) (validate=True), as used by check() and the cache update *)
  Definition sp_from_ws (f : fs) (wsd : path) (i : str) : res json :=
    let bad := if isdir f (wsd ++ [i]) then FExn EJobsCorrupted else FExn EKeyError in
    match get f (wsd ++ [i; SPF]) with
    | Some (File c) =>
        match c_json c with
        | Some v => if str_eqb (calc_id frepr v) i then inl v else inr (FExn EJobsCorrupted)
        | None => inr bad
        end
    | _ => inr bad
    end.

  Fixpoint add_from_ws (f : fs) (wsd : path) (c : list (str * json)) (ids : list str) : res (list (str * json)) :=
    match ids with
    | [] => inl c
    | i :: rest =>
        match sp_from_ws f wsd i with
        | inl v => add_from_ws f wsd (aset i v c) rest
        | inr e => inr e
        end
    end.

  (* Project.update_cache(): returns len(cache) when the file was written, None when "up to date".
     (the file is compared with the ids AFTER the in-memory cache was reconciled with the workspace: fix d7351f9) *)
  Definition update_cache (w : world) (si : nat) : world * res (option N) :=
    let s := getS w si in
    let file := cache_file (w_fs w) s in
    let c0 := match file with Some kvs => merge_cache (s_cache s) kvs | None => s_cache s end in
    let cached_ids := map fst c0 in
    let ids := job_dirs (w_fs w) (wsp s) in
    let c1 := filter (fun kv => str_mem (fst kv) ids) c0 in
    match add_from_ws (w_fs w) (wsp s) c1 (filter (fun i => negb (str_mem i cached_ids)) ids) with
    | inr e => (set_S w si (mkS (s_root s) c1 (s_cread s)), inr e)
    | inl c2 =>
        let w1 := set_S w si (mkS (s_root s) c2 (s_cread s)) in
        let stale := match file with
                     | None => true
                     | Some kvs => negb (forallb (fun k => str_mem k (map fst c2)) (map fst kvs)
                                         && forallb (fun k => str_mem k (map fst kvs)) (map fst c2))
                     end in
        if stale then
          let p := cache_path s in
          (* the .signac directory always exists in a real project (it holds the config); the model creates it on demand *)
          let f0 := match makedirs (w_fs w1) (s_root s ++ [DOTSIG]) with FOk f => f | FErr _ => w_fs w1 end in
          match write_file f0 (s_root s ++ [DOTSIG; CACHETMPFN]) (mkContent [] (Some (JObj c2))) with
          | FErr e => (w1, inr (FOs e))
          | FOk f1 =>
              match rename f1 (s_root s ++ [DOTSIG; CACHETMPFN]) p with
              | FErr e => (w1, inr (FOs e))
              | FOk f2 => (set_fs w1 f2 [EvWrite (s_root s ++ [DOTSIG; CACHETMPFN]);
                                         EvRename (s_root s ++ [DOTSIG; CACHETMPFN]) p],
                           inl (Some (N.of_nat (length c2))))
              end
          end
        else (w1, inl None)
    end.

  (* ---- the view through a fresh Project (for job in Project(root): job.id, statepoint(), document(), files) *)
  Definition files_below (f : fs) (jd : path) : list (path * list N) :=
    flat_map (fun e => match strip jd (fst e), snd e with
                       | Some (n :: r), File c =>
                           match r with
                           | [] => if str_eqb n SPF || str_eqb n DOCF then [] else [(n :: r, c_bytes c)]
                           | _ => [(n :: r, c_bytes c)]
                           end
                       | _, _ => []
                       end) f.

  Definition view_job (f : fs) (wsd : path) (i : str) : jview :=
    let sp := match get f (wsd ++ [i; SPF]) with
              | Some (File c) => match c_json c with
                                 | Some v => if str_eqb (calc_id frepr v) i then Some v else None
                                 | None => None end
              | _ => None
              end in
    let doc := match get f (wsd ++ [i; DOCF]) with
               | None => Some (JObj [])
               | Some (File c) => c_json c
               | Some Dir => None
               end in
    mkJV i sp doc (files_below f (wsd ++ [i])).

  Definition view (f : fs) (root : path) : list jview := map (view_job f (root ++ [WS])) (job_dirs f (root ++ [WS])).

  (* Project.check() *)
  Definition check_ok (f : fs) (root : path) : bool :=
    forallb (fun i => match sp_from_ws f (root ++ [WS]) i with inl _ => true | inr _ => false end)
            (job_dirs f (root ++ [WS])).

  Fixpoint dedup_paths (l : list path) (seen : list path) : list path :=
    match l with
    | [] => []
    | p :: r => if existsb (path_eqb p) seen then dedup_paths r seen else p :: dedup_paths r (p :: seen)
    end.
  Definition roots (w : world) : list path := dedup_paths (map s_root (w_ss w)) [].

  Definition snap (w : world) : oval :=
    VSnap (w_fs w) (map (fun r => (r, view (w_fs w) r, check_ok (w_fs w) r)) (roots w)).

  (* job.cached_statepoint *)
  Definition cached_sp (w : world) (hi : nat) : world * res json :=
    let h := getH w hi in
    match h_cached h with
    | Some sp => (w, inl sp)
    | None =>
        let s := getS w (h_s h) in
        match alookup (h_id h) (s_cache s) with
        | Some sp => (set_H w hi (mkH (h_s h) (h_id h) (Some sp) (h_cell h) (h_dk h)), inl sp)
        | None =>
            (* _get_statepoint_from_workspace(validate=True) *)
            let bad := if isdir (w_fs w) (jobdir w h) then FExn EJobsCorrupted else FExn EKeyError in
            match get (w_fs w) (spfile w h) with
            | Some (File c) =>
                match c_json c with
                | Some v =>
                    if str_eqb (calc_id frepr v) (h_id h) then
                      let w1 := register w (h_s h) (h_id h) v in
                      (set_H w1 hi (mkH (h_s h) (h_id h) (Some v) (h_cell h) (h_dk h)), inl v)
                    else (w, inr (FExn EJobsCorrupted))   (* raised inside the try, but not an OSError/ValueError *)
                | None => (w, inr bad)
                end
            | _ => (w, inr bad)
            end
        end
    end.

  (* cached_statepoint with the lazy read of the persistent cache inside _get_statepoint *)
  Definition cached_sp_r (w : world) (hi : nat) : world * res json :=
    match h_cached (getH w hi) with
    | Some _ => cached_sp w hi
    | None => cached_sp (ensure_read w (h_s (getH w hi))) hi
    end.

  (* job.statepoint() *)
  Definition sp_read (w : world) (hi : nat) : world * res json :=
    match sp_access w hi with
    | (w1, inr e) => (w1, inr e)
    | (w1, inl ci) => (w1, inl (c_data (getC w1 ci)))
    end.

  (* ------------------------------------------------------------------ operations and observations *)
  Definition exn_of (f : fail) : exn := match f with FExn e => e | FOs _ => EOSError end.

  Definition out_unit (r : res unit) : oval := match r with inl _ => VUnit | inr e => VExn (exn_of e) end.
  Definition out_json (r : res json) : oval := match r with inl v => VJson v | inr e => VExn (exn_of e) end.
  Definition out_handle (w : world) (r : res nat) : oval :=
    match r with inl hi => VStr (h_id (getH w hi)) | inr e => VExn (exn_of e) end.

  (* [q]: length of the trace at the previous OQuiet *)
  (* pickle.loads(pickle.dumps([handles])): one restored Project per distinct Project, one restored state point per
     distinct state point object (with the restored handles as its _jobs), own document objects *)
  Fixpoint amap_find (k : nat) (m : list (nat * nat)) : option nat :=
    match m with [] => None | (a, b) :: m' => if Nat.eqb a k then Some b else amap_find k m' end.

  Fixpoint restore_many (w : world) (hs : list nat) (sm cm : list (nat * nat)) (acc : list nat)
    : world * res (list nat) :=
    match hs with
    | [] => (w, inl acc)
    | hi :: rest =>
        match sp_access w hi with                      (* __getstate__ of the original *)
        | (w1, inr e) => (w1, inr e)
        | (w1, inl ci) =>
            let h := getH w1 hi in
            let '(w2, sj, sm') := match amap_find (h_s h) sm with
                                  | Some sj => (w1, sj, sm)
                                  | None => (add_S w1 (getS w1 (h_s h)), length (w_ss w1), (h_s h, length (w_ss w1)) :: sm)
                                  end in
            let '(w3, cj, cm') := match amap_find ci cm with
                                  | Some cj => (w2, cj, cm)
                                  | None => (add_CF w2 (mkC (c_data (getC w2 ci)) []) (getCF w2 ci), length (w_cs w2),
                                             (ci, length (w_cs w2)) :: cm)
                                  end in
            let hj := length (w_hs w3) in
            let w4 := add_job (add_H w3 (mkH sj (h_id h) (h_cached h) (Some cj) (h_dk h))) cj hj in
            let w5 := match getHD w1 hi with
                      | Some di => set_HD (add_D w4 (getD w4 di)) hj (Some (length (w_ds w4)))
                      | None => w4
                      end in
            restore_many w5 rest sm' cm' (acc ++ [hj])
        end
    end.

  Definition step_base (w : world) (q : nat) (o : op) : world * nat * oval :=
    match o with
    | ONewSession root => let '(w1, r) := new_session w root in
                          (w1, q, match r with inl _ => VUnit | inr e => VExn (exn_of e) end)
    | OOpenSp s sp => let '(w1, hi) := open_sp (ensure_read w s) s sp in (w1, q, VStr (h_id (getH w1 hi)))
    | OOpenId s i => let '(w1, r) := open_id (ensure_read w s) s i in (w1, q, out_handle w1 r)
    | OInit h force => let '(w1, r) := init false force w h in (w1, q, out_unit r)
    | OSp h => let '(w1, r) := sp_read w h in (w1, q, out_json r)
    | OCached h => let '(w1, r) := cached_sp_r w h in (w1, q, out_json r)
    | OIdPath h => (w, q, VIdPath (h_id (getH w h)) (jobdir w (getH w h)))
    | ODoc h => let '(w1, r) := doc_read w h in (w1, q, out_json r)
    | ODocReset h d => let '(w1, r) := doc_reset w h d in (w1, q, out_unit r)
    | OWriteFile h rel bytes =>
        let p := jobdir w (getH w h) ++ rel in
        match makedirs (w_fs w) (parent p) with
        | FErr e => (w, q, VExn EOSError)
        | FOk f1 =>
            match write_file f1 p (mkContent bytes None) with
            | FErr e => (w, q, VExn EOSError)
            | FOk f2 => (set_fs w f2 [EvMkdir (parent p); EvWrite p], q, VUnit)
            end
        end
    | OPlantDir p =>
        match makedirs (w_fs w) p with
        | FErr e => (w, q, VExn EOSError)
        | FOk f1 => (set_fs w f1 [EvMkdir p], q, VUnit)
        end
    | OWipe p =>
        match rmtree (w_fs w) p with
        | FErr e => (w, q, VExn EOSError)
        | FOk f1 => (set_fs w f1 [EvRmtree p], q, VUnit)
        end
    | OPlantFile p c =>
        match write_file (w_fs w) p c with
        | FErr e => (w, q, VExn EOSError)
        | FOk f1 => (set_fs w f1 [EvWrite p], q, VUnit)
        end
    | OIds s => (w, q, VStrs (job_dirs (w_fs w) (wsp (getS w s))))
    | OLen s => (w, q, VNum (N.of_nat (length (job_dirs (w_fs w) (wsp (getS w s))))))
    | OContains s h => (w, q, VBool (id_match (h_id (getH w h)) && exists_ (w_fs w) (wsp (getS w s) ++ [h_id (getH w h)])))
    | OCopy h => let '(w1, r) := copy_handle w h in (w1, q, out_handle w1 r)
    | ODeepCopy h => let '(w1, r) := deep_handle false w h in (w1, q, out_handle w1 r)
    | OPickle h => let '(w1, r) := deep_handle true w h in (w1, q, out_handle w1 r)
    | OEdit h p a => let '(w1, r) := edit w h p a in (w1, q, out_unit r)
    | OAssign h sp => let '(w1, r) := assign w h sp in (w1, q, out_unit r)
    | OUpdateSp h u ov => let '(w1, r) := update_statepoint w h u ov in (w1, q, out_unit r)
    (* move / clone call project.open_job(statepoint) on the destination project: its persistent cache is read
       (once) at that moment, after job.statepoint() was evaluated *)
    | OMove h s =>
        let '(w1, r) := match sp_access w h with
                        | (w0, inr e) => (w0, inr e)
                        | _ => move (ensure_read w s) h s
                        end in (w1, q, out_unit r)
    | OClone s h =>
        let '(w1, r) := match sp_access w h with
                        | (w0, inr e) => (w0, inr e)
                        | _ => clone (ensure_read w s) s h
                        end in (w1, q, out_handle w1 r)
    | OTree => (w, q, VTree (w_fs w))
    | OQuiet => (w, length (w_tr w), VBool (Nat.eqb (length (w_tr w)) q))
    | ORemove h => let '(w1, r) := remove_job w h in (w1, q, out_unit r)
    | OClear h => let '(w1, r) := clear_job w h in (w1, q, out_unit r)
    | OReset h => let '(w1, r) := reset_job w h in (w1, q, out_unit r)
    | OEnter h => let '(w1, r) := enter_job w h in (w1, q, out_unit r)
    | ODocSet h k v => let '(w1, r) := doc_set w h k v in (w1, q, out_unit r)
    | OUpdateCache s => let '(w1, r) := update_cache w s in
                        (w1, q, match r with inl n => VOptNum n | inr e => VExn (exn_of e) end)
    | OCheck s => (w, q, if check_ok (w_fs w) (s_root (getS w s)) then VUnit else VExn EJobsCorrupted)
    | OPickle2 _ _ | OFresh _ _ _ => (w, q, VUnit)        (* handled by [step] *)
    | OSnap =>
        (* the fresh Project's handles construct a _StatePointDict for every listed job: their file names
           enter the (process-wide) lock registry *)
        (fold_left (fun w' r => fold_left (fun w'' i => lock_add w'' (r ++ [WS; i; SPF])) (job_dirs (w_fs w) (r ++ [WS])) w')
                   (roots w) w, q, snap w)
    end.

  Definition fop_op (nhs : list nat) (f : fop) : op :=
    let hk k := nth k nhs 0%nat in
    match f with
    | FEdit k p a => OEdit (hk k) p a
    | FInit k => OInit (hk k) false
    | FDocSet k key v => ODocSet (hk k) key v
    | FSp k => OSp (hk k)
    | FCached k => OCached (hk k)
    | FIdPath k => OIdPath (hk k)
    end.

  Fixpoint run_fops (w : world) (q : nat) (nhs : list nat) (fs : list fop) : world * list oval :=
    match fs with
    | [] => (w, [])
    | f :: rest =>
        let '(w1, q1, out) := step_base w q (fop_op nhs f) in
        let '(w2, outs) := run_fops w1 q1 nhs rest in
        (w2, out :: outs)
    end.

  Definition with_locks (w : world) (l : list path) : world :=
    mkW (w_fs w) (w_ss w) (w_hs w) (w_cs w) (w_tr w) (w_hd w) (w_ds w) l (w_cf w).
  (* the child process is gone: its Project objects and handles with it (cells and documents stay as garbage) *)
  Definition forget (w : world) (ns nh : nat) : world :=
    mkW (w_fs w) (firstn ns (w_ss w)) (firstn nh (w_hs w)) (w_cs w) (w_tr w) (firstn nh (w_hd w)) (w_ds w)
        (w_locks w) (w_cf w).

  Definition step (w : world) (q : nat) (o : op) : world * nat * oval :=
    match o with
    | OPickle2 h1 h2 =>
        match restore_many w [h1; h2] [] [] [] with
        | (w1, inr e) => (w1, q, VExn (exn_of e))
        | (w1, inl nhs) => (w1, q, VStrs (map (fun h => h_id (getH w1 h)) nhs))
        end
    | OFresh h1 h2 fs =>
        match restore_many w (h1 :: match h2 with Some h => [h] | None => [] end) [] [] [] with
        | (w1, inr e) => (w1, q, VExn (exn_of e))
        | (w1, inl nhs) =>
            (* a freshly started interpreter: its lock registry is empty (an unpickled _StatePointDict does not
               run __init__, which is where the entry would be made) *)
            let saved := w_locks w1 in
            let '(w2, outs) := run_fops (with_locks w1 []) q nhs fs in
            (forget (with_locks w2 saved) (length (w_ss w)) (length (w_hs w)), q, VList outs)
        end
    | _ => step_base w q o
    end.

  (* ------------------------------------------------------------------ comparing observations *)
  Definition json_same (a b : json) : bool := json_eqb (norm a) (norm b).

  (* files compared as parsed JSON (up to key order) rather than byte-wise *)
  Definition is_sp_name (n : str) : bool := str_eqb n SPF || str_eqb n SPT || str_eqb n DOCF || str_eqb n CACHEFN.

  Definition node_match (p : path) (a b : option node) : bool :=
    match a, b with
    | Some Dir, Some Dir => true
    | Some (File c), Some (File c') =>
        if is_sp_name (last p []) then
          match c_json c, c_json c' with
          | Some v, Some v' => json_same v v'
          | None, None => list_eqb N.eqb (c_bytes c) (c_bytes c')
          | _, _ => false
          end
        else list_eqb N.eqb (c_bytes c) (c_bytes c')
    | None, None => true
    | _, _ => false
    end.

  (* only entries below <root>/workspace are compared (depth >= 3) *)
  Definition deep (p : path) : bool := Nat.leb 3 (length p).
  Definition tree_le (a b : fs) : bool :=
    forallb (fun e => negb (deep (fst e)) || node_match (fst e) (get a (fst e)) (get b (fst e))) a.
  Definition tree_match (a b : fs) : bool := tree_le a b && tree_le b a.

  Definition strs_sameset (a b : list str) : bool :=
    forallb (fun x => str_mem x b) a && forallb (fun x => str_mem x a) b && Nat.eqb (length a) (length b).

  (* model output [m] against implementation output [i]; [prev] = model fs at the previous OTree *)
  Definition oval_match (prev : fs) (m i : oval) : bool :=
    match m, i with
    | VUnit, VUnit => true
    | VBool a, VBool b => Bool.eqb a b
    | VNum a, VNum b => N.eqb a b
    | VStr a, VStr b => str_eqb a b
    | VStrs a, VStrs b => strs_sameset a b
    | VJson a, VJson b => json_same a b
    | VIdPath a p, VIdPath b q => str_eqb a b && path_eqb p q
    | VExn a, VExn b => exn_eqb a b
    | VTree a, VTree b => tree_match a b
    | VTree a, VTreeSame => tree_match a prev
    | _, _ => false
    end.

  Fixpoint run_cmp (w : world) (q : nat) (prev : fs) (ops : list op) (outs : list oval) : bool :=
    match ops, outs with
    | [], [] => true
    | o :: ops', i :: outs' =>
        let '(w1, q1, m) := step w q o in
        oval_match prev m i &&
        run_cmp w1 q1 (match o with OTree => w_fs w1 | _ => prev end) ops' outs'
    | _, _ => false
    end.

  Fixpoint run (w : world) (q : nat) (ops : list op) : list oval :=
    match ops with
    | [] => []
    | o :: ops' => let '(w1, q1, m) := step w q o in m :: run w1 q1 ops'
    end.

  (* ---- comparison of snapshots (C03) *)
  Definition ojson_same (a b : option json) : bool :=
    match a, b with Some x, Some y => json_same x y | None, None => true | _, _ => false end.
  Definition files_same (a b : list (path * list N)) : bool :=
    let le x y := forallb (fun e => existsb (fun e' => path_eqb (fst e) (fst e') && list_eqb N.eqb (snd e) (snd e')) y) x in
    le a b && le b a && Nat.eqb (length a) (length b).
  Definition jview_same (a b : jview) : bool :=
    str_eqb (v_id a) (v_id b) && ojson_same (v_sp a) (v_sp b) && ojson_same (v_doc a) (v_doc b)
    && files_same (v_files a) (v_files b).
  Definition views_same (a b : list jview) : bool :=
    Nat.eqb (length a) (length b) && forallb (fun x => existsb (jview_same x) b) a.
  Fixpoint roots_same (a b : list (path * list jview * bool)) : bool :=
    match a, b with
    | [], [] => true
    | (r, v, c) :: a', (r', v', c') :: b' => path_eqb r r' && views_same v v' && Bool.eqb c c' && roots_same a' b'
    | _, _ => false
    end.

  (* [prev] = model fs at the previous OTree / OSnap, [pn] = number of roots then *)
  Definition oval_match3 (prev : fs) (pn : nat) (nroots : nat) (m i : oval) : bool :=
    match m, i with
    | VSnap t vs, VSnap t' vs' => tree_match t t' && roots_same vs vs'
    | VSnap t vs, VSnapSame => tree_match t prev && Nat.eqb pn nroots
    | VOptNum a, VOptNum b => match a, b with Some x, Some y => N.eqb x y | None, None => true | _, _ => false end
    | VList a, VList b =>
        (fix go (a b : list oval) : bool :=
           match a, b with
           | [], [] => true
           | x :: a', y :: b' => oval_match prev x y && go a' b'
           | _, _ => false
           end) a b
    | _, _ => oval_match prev m i
    end.

  Fixpoint run_cmp3 (w : world) (q : nat) (prev : fs) (pn : nat) (ops : list op) (outs : list oval) : bool :=
    match ops, outs with
    | [], [] => true
    | o :: ops', i :: outs' =>
        let '(w1, q1, m) := step w q o in
        oval_match3 prev pn (length (roots w1)) m i &&
        match o with
        | OTree | OSnap => run_cmp3 w1 q1 (w_fs w1) (length (roots w1)) ops' outs'
        | _ => run_cmp3 w1 q1 prev pn ops' outs'
        end
    | _, _ => false
    end.

  Definition w0 : world := mkW [] [] [] [] [] [] [] [] [].

  (* ------------------------------------------------------------------ predicates used by the theorems *)
  (* a job directory that validates: directory, state point file present, parses, hashes to the name *)
  Definition valid_job (f : fs) (wsd : path) (i : str) (sp : json) : Prop :=
    get f (wsd ++ [i]) = Some Dir /\
    exists c, get f (wsd ++ [i; SPF]) = Some (File c) /\ c_json c = Some sp /\ calc_id frepr sp = i /\ is_null sp = false.

End WS.

