(* C06Collide.v — the user's filter with every condition kept, also when prefixing makes two keys equal ('a' and
   'sp.a').  The reference evaluator of the C06 oracle is defined on it (add_prefix_all), independently of how
   filterparse._add_prefix arranges such conditions; the two coincide on every collision-free filter
   (add_prefix_all_eq).  Before the repair recorded as C06 tag 2 the implementation kept only the last condition. *)
From SV Require Import Base Json PyVal Query.
Import ListNotations.

(* filterparse._add_prefix WITHOUT the collapse that dict(...) performs on equal keys: every (key, value)
   pair of the user's mapping is kept, so that direct evaluation sees every condition the user wrote *)
Fixpoint add_prefix_all (fuel : nat) (f : json) : result json :=
  match fuel with
  | O => Err EOther
  | Datatypes.S fuel' =>
      match f with
      | JObj kvs =>
          bind
            ((fix go (kvs : list (str * json)) : result (list (str * json)) :=
                match kvs with
                | [] => Ok []
                | (k, v) :: r =>
                    bind
                      (if is_logical_list k then
                         match v with
                         | JArr items =>
                             bind ((fix items_go (items : list json) : result (list json) :=
                                      match items with
                                      | [] => Ok []
                                      | it :: r' =>
                                          bind (add_prefix_all fuel' it) (fun it' =>
                                          bind (items_go r') (fun r'' => Ok (it' :: r'')))
                                      end) items)
                                  (fun items' => Ok (k, JArr items'))
                         | _ => Err EValueError
                         end
                       else if str_eqb k s_not then
                         bind (add_prefix_all fuel' v) (fun v' => Ok (k, v'))
                       else Ok (prefix_key k, v))
                      (fun kv' => bind (go r) (fun r' => Ok (kv' :: r')))
                end) kvs)
            (fun l => Ok (JObj l))
      | _ => Err EOther
      end
  end.

Fixpoint nodup_keys {A} (l : list (str * A)) : bool :=
  match l with
  | [] => true
  | (k, _) :: r => negb (str_mem k (map fst r)) && nodup_keys r
  end.

(* no mapping of the filter (at any logical depth) names one key in two spellings ('a' and 'sp.a') *)
Fixpoint collision_free (fuel : nat) (f : json) : bool :=
  match fuel with
  | O => true
  | Datatypes.S fuel' =>
      match f with
      | JObj kvs =>
          nodup_keys (map (fun kv => (if is_logical_list (fst kv) || str_eqb (fst kv) s_not then fst kv else prefix_key (fst kv), snd kv)) kvs)
          && forallb (fun kv =>
                        if is_logical_list (fst kv) then
                          match snd kv with JArr items => forallb (collision_free fuel') items | _ => true end
                        else if str_eqb (fst kv) s_not then collision_free fuel' (snd kv)
                        else true) kvs
      | _ => true
      end
  end.


Lemma aset_fresh {A} k (v : A) l : str_mem k (map fst l) = false -> aset k v l = l ++ [(k, v)].
Proof.
  induction l as [|[k' v'] l IH]; simpl; intro H; [reflexivity|].
  apply Bool.orb_false_iff in H. destruct H as [E H]. rewrite E. rewrite IH by exact H. reflexivity.
Qed.

Lemma str_eqb_sym a b : str_eqb a b = str_eqb b a.
Proof.
  destruct (str_eqb a b) eqn:E; symmetry.
  - apply str_eqb_eq in E. subst. apply str_eqb_refl.
  - apply str_eqb_neq. apply str_eqb_neq in E. congruence.
Qed.

Lemma str_mem_app s l1 l2 : str_mem s (l1 ++ l2) = str_mem s l1 || str_mem s l2.
Proof. induction l1 as [|x l1 IH]; simpl; [reflexivity|]. rewrite IH. apply Bool.orb_assoc. Qed.

(* keys of acc are disjoint from the keys of l, and l has no repeated key *)
Fixpoint fresh_all {A} (acc l : list (str * A)) : bool :=
  match l with
  | [] => true
  | (k, _) :: r => negb (str_mem k (map fst acc)) && negb (str_mem k (map fst r)) && fresh_all acc r
  end.

Lemma fold_aset_fresh {A} (l acc : list (str * A)) :
  fresh_all acc l = true -> fold_left (fun a kv => aset (fst kv) (snd kv) a) l acc = acc ++ l.
Proof.
  revert acc. induction l as [|[k v] l IH]; intros acc H; simpl.
  - rewrite app_nil_r. reflexivity.
  - simpl in H. apply Bool.andb_true_iff in H. destruct H as [H H3].
    apply Bool.andb_true_iff in H. destruct H as [H1 H2].
    apply Bool.negb_true_iff in H1. apply Bool.negb_true_iff in H2.
    rewrite aset_fresh by exact H1. rewrite IH.
    + rewrite <- app_assoc. reflexivity.
    + clear IH. revert H3 H2. induction l as [|[k' v'] l IHl]; simpl; intros H3 H2; [reflexivity|].
      apply Bool.orb_false_iff in H2. destruct H2 as [E H2].
      apply Bool.andb_true_iff in H3. destruct H3 as [H3 H4].
      apply Bool.andb_true_iff in H3. destruct H3 as [H5 H6].
      rewrite map_app, str_mem_app. simpl. rewrite H6.
      apply Bool.negb_true_iff in H5. rewrite H5. simpl.
      rewrite (str_eqb_sym k' k), E. simpl. apply IHl; assumption.
Qed.

Lemma fresh_all_nil {A} (l : list (str * A)) : nodup_keys l = true -> fresh_all [] l = true.
Proof.
  induction l as [|[k v] l IH]; simpl; intro H; [reflexivity|].
  apply Bool.andb_true_iff in H. destruct H as [H1 H2]. rewrite H1, IH by exact H2. reflexivity.
Qed.

Lemma dict_of_pairs_nodup (l : list (str * json)) : nodup_keys l = true -> dict_of_pairs l = l.
Proof. intro H. unfold dict_of_pairs. rewrite fold_aset_fresh; [reflexivity | apply fresh_all_nil; exact H]. Qed.

Lemma split_clashes_fresh (l acc : list (str * json)) :
  fresh_all acc l = true -> split_clashes l acc [] = (acc ++ l, []).
Proof.
  revert acc. induction l as [|[k v] l IH]; intros acc H; simpl.
  - rewrite app_nil_r. reflexivity.
  - simpl in H. apply Bool.andb_true_iff in H. destruct H as [H H3].
    apply Bool.andb_true_iff in H. destruct H as [H1 H2].
    apply Bool.negb_true_iff in H1. apply Bool.negb_true_iff in H2.
    rewrite H1. rewrite IH.
    + rewrite <- app_assoc. reflexivity.
    + clear IH. revert H3 H2. induction l as [|[k' v'] l IHl]; simpl; intros H3 H2; [reflexivity|].
      apply Bool.orb_false_iff in H2. destruct H2 as [E H2].
      apply Bool.andb_true_iff in H3. destruct H3 as [H3 H4].
      apply Bool.andb_true_iff in H3. destruct H3 as [H5 H6].
      rewrite map_app, str_mem_app. simpl. rewrite H6.
      apply Bool.negb_true_iff in H5. rewrite H5. simpl.
      rewrite (str_eqb_sym k' k), E. simpl. apply IHl; assumption.
Qed.

Lemma collapse_and_nodup (l : list (str * json)) : nodup_keys l = true -> collapse_and l = l.
Proof.
  intro H. unfold collapse_and. rewrite split_clashes_fresh by (apply fresh_all_nil; exact H). reflexivity.
Qed.

Definition keyf (kv : str * json) : str :=
  if is_logical_list (fst kv) || str_eqb (fst kv) s_not then fst kv else prefix_key (fst kv).

Lemma nodup_keys_ext {A B} (l : list (str * A)) (l' : list (str * B)) :
  map fst l = map fst l' -> nodup_keys l = nodup_keys l'.
Proof.
  revert l'. induction l as [|[k v] l IH]; intros [|[k' v'] l'] H; simpl in *; try discriminate; [reflexivity|].
  injection H as -> H. rewrite H. f_equal. apply IH. exact H.
Qed.

Theorem add_prefix_all_eq : forall fuel f,
  collision_free fuel f = true -> add_prefix_all fuel f = add_prefix fuel f.
Proof.
  induction fuel as [|fuel IH]; intros f H; [reflexivity|].
  destruct f as [| | | | | |kvs]; try reflexivity.
  cbn [collision_free] in H. apply Bool.andb_true_iff in H. destruct H as [Hnd Hsub].
  cbn [add_prefix_all add_prefix].
  match goal with |- bind (?A kvs) _ = bind (?B kvs) _ => set (goA := A); set (goB := B) end.
  assert (Hgo : forall kvs0, forallb (fun kv =>
                        if is_logical_list (fst kv) then
                          match snd kv with JArr items => forallb (collision_free fuel) items | _ => true end
                        else if str_eqb (fst kv) s_not then collision_free fuel (snd kv)
                        else true) kvs0 = true -> goA kvs0 = goB kvs0
                        /\ forall l, goB kvs0 = Ok l -> map fst l = map keyf kvs0).
  { induction kvs0 as [|[k v] r IHr]; intro Hs.
    - split; [reflexivity|]. intros l E. cbn in E. injection E as <-. reflexivity.
    - cbn [forallb fst snd] in Hs. apply Bool.andb_true_iff in Hs. destruct Hs as [Hk Hr].
      destruct (IHr Hr) as [IH1 IH2].
      assert (Hhead : forall X Y : result (str * json), X = Y ->
                (forall kv', Y = Ok kv' -> fst kv' = keyf (k, v)) ->
                bind X (fun kv' => bind (goA r) (fun r' => Ok (kv' :: r'))) =
                bind Y (fun kv' => bind (goB r) (fun r' => Ok (kv' :: r')))
                /\ forall l, bind Y (fun kv' => bind (goB r) (fun r' => Ok (kv' :: r'))) = Ok l ->
                             map fst l = keyf (k, v) :: map keyf r).
      { intros X Y -> Hy. rewrite IH1. split; [reflexivity|].
        intros l E. destruct Y as [kv'|e]; cbn in E; [|discriminate].
        destruct (goB r) as [r'|e] eqn:Er; cbn in E; [|discriminate].
        injection E as <-. cbn. rewrite (Hy kv' eq_refl). f_equal. apply IH2. reflexivity. }
      change (map keyf ((k, v) :: r)) with (keyf (k, v) :: map keyf r).
      unfold goA at 1. unfold goB at 1 2. fold goA. fold goB. cbn beta iota.
      destruct (is_logical_list k) eqn:Ek.
      + destruct v as [| | | | |items|]; try (apply Hhead; [reflexivity | discriminate]).
        apply Hhead.
        * f_equal. clear -IH Hk. induction items as [|it items IHi]; [reflexivity|].
          cbn [forallb] in Hk. apply Bool.andb_true_iff in Hk. destruct Hk as [H1 H2].
          rewrite (IH it H1). rewrite (IHi H2). reflexivity.
        * intros kv' E. unfold keyf. cbn [fst]. rewrite Ek. cbn [orb].
          destruct (_ : result (list json)) in E; cbn in E; [injection E as <-; reflexivity | discriminate].
      + cbn [orb]. destruct (str_eqb k s_not) eqn:En.
        * apply Hhead.
          -- rewrite (IH v Hk). reflexivity.
          -- intros kv' E. unfold keyf. cbn [fst]. rewrite Ek, En. cbn [orb].
             destruct (add_prefix fuel v); cbn in E; [injection E as <-; reflexivity | discriminate].
        * apply Hhead; [reflexivity|]. intros kv' E. unfold keyf. cbn [fst]. rewrite Ek, En. cbn [orb].
          injection E as <-. reflexivity. }
  destruct (Hgo kvs Hsub) as [H1 H2]. rewrite H1.
  destruct (goB kvs) as [l|e] eqn:El; [|reflexivity].
  cbn. rewrite collapse_and_nodup; [reflexivity|].
  rewrite <- Hnd. apply nodup_keys_ext. rewrite (H2 l eq_refl). rewrite map_map. apply map_ext. intros [k v]. reflexivity.
Qed.

Section Ref.
  Variable regex_search : str -> str -> bool.
  Variable isclose : (Z * Z) -> (Z * Z) -> (Z * Z) -> (Z * Z) -> bool.

  (* direct per-job evaluation of the filter AS WRITTEN (every condition kept) *)
  Definition job_matches_all (sc : bool) (fuel : nat) (f : json) (j : job) : result bool :=
    if is_empty_filter f then Ok true
    else bind (add_prefix_all fuel f) (fun pf => matches regex_search isclose sc fuel (snd (job_doc true j)) pf).

  Theorem job_matches_all_eq : forall sc fuel f j,
    collision_free fuel f = true ->
    job_matches_all sc fuel f j = job_matches regex_search isclose sc fuel f j.
  Proof.
    intros sc fuel f j H. unfold job_matches_all, job_matches.
    rewrite (add_prefix_all_eq fuel f H). reflexivity.
  Qed.
End Ref.
