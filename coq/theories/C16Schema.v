(* C16Schema.v — a schema string parses back the path layout it describes. *)
From Coq Require Import String Ascii DecimalPos DecimalN.
From SV Require Import Base Json MD5 Canon Export.
Local Open Scope N_scope.
Local Opaque S.

(* ------------------------------------------------------------------ int(text) inverts the printer *)
Definition dstep (acc : Z) (c : N) : Z := (acc * 10 + Z.of_N (c - 48))%Z.

Lemma digits_val_unfold : forall ds, digits_val ds = fold_left dstep ds 0%Z.
Proof. reflexivity. Qed.

Lemma fold_dstep_acc : forall u acc,
  fold_left dstep (uint_chars u) (Zpos acc) = Zpos (Pos.of_uint_acc u acc).
Proof.
  induction u; intro acc; cbn [uint_chars fold_left Pos.of_uint_acc]; auto;
    (etransitivity; [|apply IHu]); f_equal; unfold dstep; lia.
Qed.

Lemma fold_dstep_zero : forall u, fold_left dstep (uint_chars u) 0%Z = Z.of_N (Pos.of_uint u).
Proof.
  induction u; simpl; auto;
    try (change (dstep 0%Z _) with (Zpos 1)); try (change (dstep 0%Z _) with (Zpos 2));
    try (change (dstep 0%Z _) with (Zpos 3)); try (change (dstep 0%Z _) with (Zpos 4));
    try (change (dstep 0%Z _) with (Zpos 5)); try (change (dstep 0%Z _) with (Zpos 6));
    try (change (dstep 0%Z _) with (Zpos 7)); try (change (dstep 0%Z _) with (Zpos 8));
    try (change (dstep 0%Z _) with (Zpos 9)); try apply fold_dstep_acc.
Qed.

Lemma digits_val_dec_N : forall n, digits_val (dec_N n) = Z.of_N n.
Proof.
  intro n. rewrite digits_val_unfold. unfold dec_N. rewrite fold_dstep_zero.
  change (Pos.of_uint (N.to_uint n)) with (N.of_uint (N.to_uint n)).
  rewrite DecimalN.Unsigned.of_to. reflexivity.
Qed.

Lemma dec_N_pos_nonempty : forall p, dec_N (Npos p) <> [].
Proof.
  intros p. unfold dec_N. simpl. pose proof (Unsigned.to_uint_nonnil p) as H.
  destruct (Pos.to_uint p); simpl; congruence.
Qed.

Lemma dec_N_digits : forall n, forallb is_digit (dec_N n) = true.
Proof.
  intro n. apply forallb_forall. intros c Hc.
  pose proof (uint_chars_digits (N.to_uint n)) as H. rewrite Forall_forall in H.
  specialize (H c Hc). unfold is_digit. apply andb_true_iff. split; apply N.leb_le; lia.
Qed.

Lemma conv_int_dec_Z : forall z, conv_int (dec_Z z) = z.
Proof.
  intros [|p|p]; simpl.
  - reflexivity.
  - assert (H : conv_int (dec_N (Npos p)) = digits_val (dec_N (Npos p))).
    { pose proof (dec_N_digits (Npos p)) as Hd. pose proof (dec_N_pos_nonempty p) as Hn.
      destruct (dec_N (Npos p)) as [|c r]; [congruence|]. simpl in Hd. apply andb_true_iff in Hd.
      destruct Hd as [Hc _]. unfold is_digit in Hc. apply andb_true_iff in Hc. destruct Hc as [H1 H2].
      apply N.leb_le in H1, H2. unfold conv_int.
      destruct c as [|c]; [lia|]. do 6 (destruct c as [c|c|]; try reflexivity; try lia). }
    rewrite H, digits_val_dec_N. reflexivity.
  - unfold conv_int. rewrite digits_val_dec_N. reflexivity.
Qed.

(* ------------------------------------------------------------------ greedy groups *)
Definition stops (p : N -> bool) (rest : str) : Prop :=
  rest = [] \/ exists c r, rest = c :: r /\ p c = false.

Lemma span_app_stop : forall p t rest, forallb p t = true -> stops p rest -> span p (t ++ rest) = (t, rest).
Proof.
  induction t as [|c t IH]; simpl; intros rest Ht Hs.
  - destruct Hs as [->|[c [r [-> Hc]]]]; simpl; auto. rewrite Hc. reflexivity.
  - apply andb_true_iff in Ht. destruct Ht as [Hc Ht]. rewrite Hc, (IH rest Ht Hs). reflexivity.
Qed.

Lemma cuts_first : forall t rest, t <> [] -> exists more, cuts (List.length t) t rest = (t, rest) :: more.
Proof. intros [|c t] rest H; [congruence|]. simpl. eexists. reflexivity. Qed.

(* the text of a field, by class *)
Inductive class_text : fty -> str -> Prop :=
| ct_str : forall t, t <> [] -> forallb is_word t = true -> class_text TyStr t
| ct_bool : forall t, t <> [] -> forallb is_word t = true -> class_text TyBool t
| ct_int : forall z, class_text TyInt (dec_Z z)
| ct_float : forall (neg : bool) d1 d2, forallb is_digit d1 = true -> forallb is_digit d2 = true -> d2 <> [] ->
    class_text TyFloat ((if neg then [45] else []) ++ d1 ++ [46] ++ d2).

(* what may follow a field: the end of the path, or a '/' *)
Definition sep_follows (rest : str) : Prop := rest = [] \/ exists r, rest = 47 :: r.

Lemma sep_stops : forall p rest, p 47 = false -> sep_follows rest -> stops p rest.
Proof. intros p rest Hp [->|[r ->]]; [left; auto|right; eauto]. Qed.

Definition sign_split (s : str) : str * str :=
  match s with c :: r => if is_sign c then ([c], r) else ([], s) | [] => ([], s) end.
Definition int_body (sg s1 : str) : list (str * str) :=
  let '(run, rest) := span is_digit s1 in
  List.map (fun cr => (sg ++ fst cr, snd cr)) (cuts (List.length run) run rest).
Definition float_body (sg s1 : str) : list (str * str) :=
  let '(d1, r1) := span is_digit s1 in
  let withdot := match r1 with
                 | 46 :: r2 => let '(d2, r3) := span is_digit r2 in
                               List.map (fun cr => (sg ++ d1 ++ [46] ++ fst cr, snd cr)) (cuts (List.length d2) d2 r3)
                 | _ => []
                 end in
  withdot ++ List.map (fun cr => (sg ++ fst cr, snd cr)) (cuts (List.length d1) d1 r1).

Lemma cands_int_unfold : forall s, cands TyInt s = let '(sg, s1) := sign_split s in int_body sg s1.
Proof. intro s. unfold cands, sign_split, int_body. destruct s as [|c r]; [reflexivity|]. destruct (is_sign c); reflexivity. Qed.
Lemma cands_float_unfold : forall s, cands TyFloat s = let '(sg, s1) := sign_split s in float_body sg s1.
Proof. intro s. unfold cands, sign_split, float_body. destruct s as [|c r]; [reflexivity|]. destruct (is_sign c); reflexivity. Qed.

Lemma digit_not_sign : forall c, is_digit c = true -> is_sign c = false.
Proof.
  intros c Hc. unfold is_digit in Hc. unfold is_sign. apply andb_true_iff in Hc. destruct Hc as [Hc1 Hc2].
  apply N.leb_le in Hc1, Hc2. apply orb_false_iff. split; apply N.eqb_neq; lia.
Qed.

Lemma sign_split_digit : forall c r, is_digit c = true -> sign_split (c :: r) = ([], c :: r).
Proof. intros c r H. unfold sign_split. rewrite (digit_not_sign c H). reflexivity. Qed.

Lemma int_body_first : forall sg n rest, n <> [] -> forallb is_digit n = true -> sep_follows rest ->
  exists more, int_body sg (n ++ rest) = (sg ++ n, rest) :: more.
Proof.
  intros sg n rest Hn Hd Hs. unfold int_body.
  rewrite (span_app_stop is_digit n rest Hd (sep_stops _ _ eq_refl Hs)).
  destruct (cuts_first n rest Hn) as [more ->]. simpl. eexists. reflexivity.
Qed.

Lemma float_body_first : forall sg d1 d2 rest, forallb is_digit d1 = true -> forallb is_digit d2 = true -> d2 <> [] ->
  sep_follows rest -> exists more, float_body sg (d1 ++ [46] ++ d2 ++ rest) = (sg ++ d1 ++ [46] ++ d2, rest) :: more.
Proof.
  intros sg d1 d2 rest H1 H2 Hn Hs. unfold float_body.
  rewrite (span_app_stop is_digit d1 ([46] ++ d2 ++ rest) H1) by (right; eexists; eexists; split; reflexivity).
  cbn [app]. rewrite (span_app_stop is_digit d2 rest H2 (sep_stops _ _ eq_refl Hs)).
  destruct (cuts_first d2 rest Hn) as [more ->]. simpl. eexists. reflexivity.
Qed.

Lemma cands_first : forall ty t rest, class_text ty t -> sep_follows rest ->
  exists more, cands ty (t ++ rest) = (t, rest) :: more.
Proof.
  intros ty t rest Hc Hs. destruct Hc as [t Hn Hw|t Hn Hw|z|neg d1 d2 H1 H2 Hn].
  - unfold cands. rewrite (span_app_stop is_word t rest Hw (sep_stops _ _ eq_refl Hs)). apply cuts_first. exact Hn.
  - unfold cands. rewrite (span_app_stop is_word t rest Hw (sep_stops _ _ eq_refl Hs)). apply cuts_first. exact Hn.
  - rewrite cands_int_unfold.
    assert (Hgen : forall n, n <> [] -> forallb is_digit n = true ->
              exists more, (let '(sg, s1) := sign_split (n ++ rest) in int_body sg s1) = (n, rest) :: more).
    { intros n Hn Hd. destruct n as [|c n]; [congruence|]. pose proof Hd as Hd'. simpl in Hd'. apply andb_true_iff in Hd'.
      cbn [app]. rewrite sign_split_digit by tauto.
      apply (int_body_first [] (c :: n) rest Hn Hd Hs). }
    destruct z as [|p|p]; simpl dec_Z.
    + apply (Hgen [48]); [discriminate|reflexivity].
    + apply Hgen; [apply dec_N_pos_nonempty|apply dec_N_digits].
    + cbn [app]. unfold sign_split. change (is_sign 45) with true. cbv iota.
      apply (int_body_first [45] (dec_N (Npos p)) rest (dec_N_pos_nonempty p) (dec_N_digits _) Hs).
  - rewrite cands_float_unfold. destruct neg.
    + cbn [app]. unfold sign_split. change (is_sign 45) with true. cbv iota.
      rewrite <- !app_assoc. apply (float_body_first [45] d1 d2 rest H1 H2 Hn Hs).
    + cbn [app]. rewrite <- !app_assoc.
      assert (Hss : sign_split (d1 ++ [46] ++ d2 ++ rest) = ([], d1 ++ [46] ++ d2 ++ rest)).
      { destruct d1 as [|c d1]; [reflexivity|]. simpl in H1. apply andb_true_iff in H1. cbn [app].
        apply sign_split_digit. tauto. }
      cbn [app] in *. rewrite Hss. apply (float_body_first [] d1 d2 rest H1 H2 Hn Hs).
Qed.

(* ------------------------------------------------------------------ the regex matches the layout *)
Fixpoint layout_text (fs : list (str * str * fty)) (ts : list str) : str :=
  match fs, ts with
  | (lit, _, _) :: fs', t :: ts' => lit ++ t ++ layout_text fs' ts'
  | _, _ => []
  end.

Fixpoint layout_binds (fs : list (str * str * fty)) (ts : list str) : list (str * fty * str) :=
  match fs, ts with
  | (_, key, ty) :: fs', t :: ts' => (key, ty, t) :: layout_binds fs' ts'
  | _, _ => []
  end.

(* every field text is of its class; every literal except the first starts with '/' *)
Inductive layout_ok : bool -> list (str * str * fty) -> list str -> Prop :=
| lo_nil : forall b, layout_ok b [] []
| lo_cons : forall b lit key ty fs t ts,
    class_text ty t -> (b = true \/ exists r, lit = 47 :: r) -> layout_ok false fs ts ->
    layout_ok b ((lit, key, ty) :: fs) (t :: ts).

Lemma match_lit_app : forall lit s, match_lit lit (lit ++ s) = Some s.
Proof. induction lit as [|c l IH]; simpl; auto. intro s. rewrite N.eqb_refl. apply IH. Qed.

Lemma layout_sep : forall fs ts, layout_ok false fs ts -> sep_follows (layout_text fs ts).
Proof.
  intros fs ts H. inversion H; subst; simpl; [left; reflexivity|].
  destruct H1 as [?|[r ->]]; [discriminate|]. right. eexists. reflexivity.
Qed.

Lemma match_fields_layout : forall b fs ts, layout_ok b fs ts ->
  match_fields fs (layout_text fs ts) = Some (layout_binds fs ts).
Proof.
  intros b fs ts H. induction H as [b|b lit key ty fs t ts Hc Hl Hok IH]; simpl; [reflexivity|].
  rewrite match_lit_app.
  destruct (cands_first ty t (layout_text fs ts) Hc (layout_sep _ _ Hok)) as [more ->].
  simpl. rewrite IH. reflexivity.
Qed.

(* ------------------------------------------------------------------ values, their text, and back *)
Inductive val_text (o : oracle) : fty -> json -> str -> Prop :=
| vt_str : forall s, s <> [] -> forallb is_word s = true -> val_text o TyStr (JStr s) s
| vt_bool : forall b, val_text o TyBool (JBool b) (if b then S "True" else S "False")
| vt_int : forall z, val_text o TyInt (JInt z) (dec_Z z)
| vt_float : forall f (neg : bool) d1 d2,
    (* float.__repr__ wrote a plain decimal and float() reads it back: properties of the Python
       library (repr round-trips), assumed for the floats in question *)
    ftab_get (o_frepr o) f = (if neg then [45] else []) ++ d1 ++ [46] ++ d2 ->
    forallb is_digit d1 = true -> forallb is_digit d2 = true -> d2 <> [] ->
    conv_float (ftab_get (o_frepr o) f) = f ->
    val_text o TyFloat (JFloat f) (ftab_get (o_frepr o) f).

Lemma val_text_class : forall o ty v t, val_text o ty v t -> class_text ty t.
Proof.
  intros o ty v t H. destruct H as [s Hn Hw|b|z|f neg d1 d2 E H1 H2 Hn Hc].
  - constructor; auto.
  - destruct b; constructor; try (vm_compute; discriminate); vm_compute; reflexivity.
  - constructor.
  - rewrite E. constructor; auto.
Qed.

Lemma val_text_conv : forall o ty v t, val_text o ty v t -> conv ty t = v.
Proof.
  intros o ty v t H. destruct H as [s Hn Hw|b|z|f neg d1 d2 E H1 H2 Hn Hc]; simpl.
  - reflexivity.
  - destruct b; vm_compute; reflexivity.
  - rewrite conv_int_dec_Z. reflexivity.
  - rewrite Hc. reflexivity.
Qed.

Lemma val_text_py : forall o ty v t, val_text o ty v t -> py_text o false v = ROk t.
Proof. intros o ty v t H. destruct H as [s Hn Hw|b|z|f neg d1 d2 E H1 H2 Hn Hc]; simpl; auto. destruct b; reflexivity. Qed.

Lemma word_no_brace : forall t, forallb is_word t = true -> has_brace t = false.
Proof.
  induction t as [|c t IH]; simpl; auto. intro H. apply andb_true_iff in H. destruct H as [Hc Ht].
  rewrite (IH Ht), orb_false_r.
  destruct (c =? 123) eqn:E1; [apply N.eqb_eq in E1; subst; discriminate|].
  destruct (c =? 125) eqn:E2; [apply N.eqb_eq in E2; subst; discriminate|]. reflexivity.
Qed.

Lemma has_brace_app : forall a b, has_brace (a ++ b) = has_brace a || has_brace b.
Proof. intros. unfold has_brace. apply existsb_app. Qed.

Lemma digits_no_brace : forall t, forallb is_digit t = true -> has_brace t = false.
Proof.
  intros t H. apply word_no_brace. apply forallb_forall. intros c Hc. rewrite forallb_forall in H.
  specialize (H c Hc). unfold is_word. rewrite H. reflexivity.
Qed.

Lemma val_text_no_brace : forall o ty v t, val_text o ty v t -> has_brace t = false.
Proof.
  intros o ty v t H. destruct H as [s Hn Hw|b|z|f neg d1 d2 E H1 H2 Hn Hc].
  - apply word_no_brace. exact Hw.
  - destruct b; vm_compute; reflexivity.
  - destruct z as [|p|p]; unfold dec_Z.
    + reflexivity.
    + apply digits_no_brace. apply dec_N_digits.
    + change (has_brace ([45] ++ dec_N (N.pos p)) = false). rewrite has_brace_app.
      rewrite (digits_no_brace _ (dec_N_digits _)). reflexivity.
  - rewrite E. rewrite !has_brace_app. rewrite (digits_no_brace _ H1), (digits_no_brace _ H2).
    destruct neg; reflexivity.
Qed.

(* ------------------------------------------------------------------ assembling the state point *)
Lemma split_no_sep : forall c s, forallb (fun x => negb (x =? c)) s = true -> split c s = [s].
Proof.
  induction s as [|x s IH]; simpl; auto. intro H. apply andb_true_iff in H. destruct H as [Hx Hs].
  apply negb_true_iff in Hx. rewrite Hx, (IH Hs). reflexivity.
Qed.

Lemma aset_fresh : forall A k (v : A) d, ~ In k (List.map fst d) -> aset k v d = d ++ [(k, v)].
Proof.
  induction d as [|[k' v'] d IH]; simpl; intro H; auto.
  destruct (str_eqb k k') eqn:E; [apply str_eqb_eq in E; subst; tauto|].
  f_equal. apply IH. tauto.
Qed.

Definition flat_key (k : str) : Prop := forallb (fun x => negb (x =? 46)) k = true.

Lemma assemble_flat : forall (binds : list (str * fty * str)) acc,
  Forall (fun b => flat_key (fst (fst b))) binds ->
  NoDup (List.map fst acc ++ List.map (fun b => fst (fst b)) binds) ->
  fold_left (fun acc b => do d <- acc;
               let '(key, ty, text) := b in
               nest_set (Datatypes.S (List.length key)) (split 46 key) (conv ty text) d) binds (ROk acc)
  = ROk (acc ++ List.map (fun b => (fst (fst b), conv (snd (fst b)) (snd b))) binds).
Proof.
  induction binds as [|[[key ty] text] binds IH]; simpl; intros acc Hf Hnd.
  - rewrite app_nil_r. reflexivity.
  - inversion Hf as [|? ? Hk Hf']; subst. simpl in Hk. unfold flat_key in Hk.
    rewrite (split_no_sep 46 key Hk). simpl nest_set.
    assert (Hfresh : ~ In key (List.map fst acc)).
    { intro Hin. apply NoDup_remove_2 in Hnd. apply Hnd. apply in_or_app. left. exact Hin. }
    rewrite (aset_fresh _ key (conv ty text) acc Hfresh).
    rewrite IH; auto.
    + rewrite <- app_assoc. reflexivity.
    + rewrite map_app. simpl. rewrite <- app_assoc. simpl. exact Hnd.
Qed.

(* ------------------------------------------------------------------ the round trip *)
Record item := { it_lit : str; it_key : str; it_ty : fty; it_val : json; it_text : str }.
Definition fields_of (its : list item) : list (str * str * fty) := List.map (fun i => (it_lit i, it_key i, it_ty i)) its.
Definition texts_of (its : list item) : list str := List.map it_text its.
Definition sp_of (its : list item) : json := JObj (List.map (fun i => (it_key i, it_val i)) its).
Definition segs_of (its : list item) : list seg := flat_map (fun i => [SLit (it_lit i); SKey [it_key i]]) its.

(* each value is of the class its field declares and is written as export writes it; every literal
   but the first starts with '/' *)
Inductive items_ok (o : oracle) : bool -> list item -> Prop :=
| io_nil : forall b, items_ok o b []
| io_cons : forall b i its,
    val_text o (it_ty i) (it_val i) (it_text i) -> (b = true \/ exists r, it_lit i = 47 :: r) ->
    items_ok o false its -> items_ok o b (i :: its).

Lemma items_layout : forall o b its, items_ok o b its -> layout_ok b (fields_of its) (texts_of its).
Proof.
  intros o b its H. induction H as [b|b i its Hv Hl Hok IH]; simpl; constructor; auto.
  eapply val_text_class; eauto.
Qed.

Lemma binds_of_items : forall o b its, items_ok o b its ->
  List.map (fun b => (fst (fst b), conv (snd (fst b)) (snd b))) (layout_binds (fields_of its) (texts_of its))
  = List.map (fun i => (it_key i, it_val i)) its.
Proof.
  intros o b its H. induction H as [b|b i its Hv Hl Hok IH]; simpl; auto.
  rewrite IH. rewrite (val_text_conv _ _ _ _ Hv). reflexivity.
Qed.

Lemma binds_keys : forall its,
  List.map (fun b => fst (fst b)) (layout_binds (fields_of its) (texts_of its)) = List.map it_key its.
Proof. induction its as [|i its IH]; simpl; auto. rewrite IH. reflexivity. Qed.

Theorem schema_string_roundtrip : forall o its,
  items_ok o true its ->
  Forall flat_key (List.map it_key its) -> NoDup (List.map it_key its) ->
  parse_path (fields_of its) (layout_text (fields_of its) (texts_of its)) = ROk (Some (sp_of its)).
Proof.
  intros o its Hok Hflat Hnd. unfold parse_path.
  rewrite (match_fields_layout true _ _ (items_layout _ _ _ Hok)).
  rewrite (assemble_flat (layout_binds (fields_of its) (texts_of its)) []).
  - simpl. rewrite (binds_of_items _ _ _ Hok). reflexivity.
  - rewrite Forall_forall in *. intros b Hb. apply Hflat. rewrite <- binds_keys.
    apply (in_map (fun b => fst (fst b))) in Hb. exact Hb.
  - simpl. rewrite binds_keys. exact Hnd.
Qed.

(* the path in the theorem is the path export writes for the format string "lit{key}lit{key}..." *)
Lemma fmt_value_item : forall o sp ty v t key,
  val_text o ty v t -> get_path sp [key] = Some v -> fmt_value o sp [key] = ROk t.
Proof.
  intros o sp ty v t key Hv Hg. unfold fmt_value. rewrite Hg.
  pose proof (val_text_py _ _ _ _ Hv) as Hp. pose proof (val_text_no_brace _ _ _ _ Hv) as Hb.
  destruct Hv; rewrite Hp; cbn [rbind]; rewrite Hb; reflexivity.
Qed.

Theorem fmt_path_layout : forall o jobs j its b,
  items_ok o b its ->
  Forall (fun i => has_brace (it_lit i) = false) its ->
  Forall (fun i => get_path (j_sp j) [it_key i] = Some (it_val i)) its ->
  fmt_path o jobs (segs_of its) j = ROk (layout_text (fields_of its) (texts_of its)).
Proof.
  intros o jobs j its b Hok Hlit Hget. unfold fmt_path.
  generalize (flat_map seg_excl (segs_of its)). intro excl.
  change (ROk (layout_text (fields_of its) (texts_of its))) with (ROk ([] ++ layout_text (fields_of its) (texts_of its))).
  generalize (@nil N) as pre. revert b Hok Hlit Hget.
  induction its as [|i its IH]; intros b Hok Hlit Hget pre; simpl.
  - rewrite app_nil_r. reflexivity.
  - inversion Hok as [|? ? ? Hv Hl Hok']; subst. inversion Hlit as [|? ? Hb Hlit']; subst.
    inversion Hget as [|? ? Hg Hget']; subst.
    rewrite Hb. cbn [rbind]. rewrite (fmt_value_item _ _ _ _ _ _ Hv Hg). cbn [rbind].
    rewrite (IH false Hok' Hlit' Hget'). rewrite <- !app_assoc. reflexivity.
Qed.

Corollary schema_parses_exported_path : forall o jobs j its,
  items_ok o true its ->
  Forall flat_key (List.map it_key its) -> NoDup (List.map it_key its) ->
  Forall (fun i => has_brace (it_lit i) = false) its ->
  Forall (fun i => get_path (j_sp j) [it_key i] = Some (it_val i)) its ->
  exists path, fmt_path o jobs (segs_of its) j = ROk path
               /\ parse_path (fields_of its) path = ROk (Some (sp_of its)).
Proof.
  intros o jobs j its Hok Hflat Hnd Hlit Hget. eexists. split.
  - eapply fmt_path_layout; eauto.
  - apply (schema_string_roundtrip o); auto.
Qed.

(* ------------------------------------------------------------------ the schema string itself:
   _convert_schema_path_to_regex reads "lit{key:type}lit{key:type}..." back into the fields *)
Definition ty_name (ty : fty) : str :=
  match ty with TyStr => S "str" | TyInt => S "int" | TyFloat => S "float" | TyBool => S "bool" end.
Definition schema_text (its : list item) : str :=
  flat_map (fun i => it_lit i ++ [123] ++ it_key i ++ [58] ++ ty_name (it_ty i) ++ [125]) its.

Lemma ty_of_name_name : forall ty, ty_of_name (ty_name ty) = Some ty.
Proof. destruct ty; vm_compute; reflexivity. Qed.

Lemma ty_name_lower : forall ty, forallb is_lower (ty_name ty) = true.
Proof. destruct ty; vm_compute; reflexivity. Qed.

Lemma ty_name_nonempty : forall ty, ty_name ty <> [].
Proof. destruct ty; vm_compute; discriminate. Qed.

Lemma field_at_item : forall key ty rest, key <> [] -> forallb is_keych key = true ->
  field_at (key ++ [58] ++ ty_name ty ++ [125] ++ rest) = Some (key, Some (ty_name ty), rest).
Proof.
  intros key ty rest Hn Hk. unfold field_at.
  rewrite (span_app_stop is_keych key _ Hk) by (right; eexists; eexists; split; reflexivity).
  destruct key as [|c key]; [congruence|]. cbn [app].
  rewrite (span_app_stop is_lower (ty_name ty) (125 :: rest) (ty_name_lower ty)) by (right; eexists; eexists; split; reflexivity).
  pose proof (ty_name_nonempty ty) as Ht. destruct (ty_name ty); [congruence|]. reflexivity.
Qed.

Lemma scan_literal : forall lit s acc fuel, has_brace lit = false ->
  schema_scan (List.length lit + fuel) (lit ++ s) acc = schema_scan fuel s (rev lit ++ acc).
Proof.
  induction lit as [|c lit IH]; intros s acc fuel Hb; [reflexivity|].
  simpl in Hb. apply orb_false_iff in Hb. destruct Hb as [Hc Hb]. apply orb_false_iff in Hc. destruct Hc as [Hc _].
  cbn [List.length plus app schema_scan]. rewrite Hc. rewrite IH by exact Hb.
  simpl rev. rewrite <- app_assoc. reflexivity.
Qed.

Fixpoint scan_need (its : list item) : nat :=
  match its with [] => 1%nat | i :: r => (List.length (it_lit i) + Datatypes.S (scan_need r))%nat end.

Lemma schema_scan_text : forall its extra,
  Forall (fun i => has_brace (it_lit i) = false /\ it_key i <> [] /\ forallb is_keych (it_key i) = true) its ->
  schema_scan (scan_need its + extra) (schema_text its) [] = ROk (fields_of its).
Proof.
  induction its as [|i its IH]; intros extra H; [reflexivity|].
  inversion H as [|? ? [Hb [Hn Hk]] H']; subst.
  cbn [schema_text flat_map scan_need]. rewrite <- !app_assoc. rewrite <- Nat.add_assoc.
  rewrite scan_literal by exact Hb. rewrite app_nil_r.
  cbn [plus schema_scan app]. change (123 =? 123) with true. cbv iota.
  match goal with |- context [field_at ?x] => change x with (it_key i ++ [58] ++ ty_name (it_ty i) ++ [125] ++ schema_text its) end.
  rewrite (field_at_item _ _ _ Hn Hk). rewrite ty_of_name_name.
  rewrite (IH extra H'). cbn [rbind fields_of List.map]. rewrite rev_involutive. reflexivity.
Qed.

Lemma scan_need_le : forall its, (scan_need its <= Datatypes.S (List.length (schema_text its)))%nat.
Proof.
  induction its as [|i its IH]; simpl; [lia|]. rewrite !app_length. simpl. rewrite !app_length. simpl. lia.
Qed.

Theorem schema_compile_text : forall its,
  Forall (fun i => has_brace (it_lit i) = false /\ it_key i <> [] /\ forallb is_keych (it_key i) = true) its ->
  Forall (fun i => forallb lit_safe (it_lit i) = true) its ->
  NoDup (List.map it_key its) ->
  Forall (fun i => match it_key i with c :: _ => is_digit c = false | [] => False end) its ->
  schema_compile (schema_text its) = ROk (fields_of its).
Proof.
  intros its H1 H2 H3 H4. unfold schema_compile.
  pose proof (scan_need_le its) as Hle.
  replace (Datatypes.S (List.length (schema_text its)))
    with (scan_need its + (Datatypes.S (List.length (schema_text its)) - scan_need its))%nat by lia.
  rewrite schema_scan_text by exact H1. cbn [rbind].
  assert (E1 : forallb (fun f => forallb lit_safe (fst (fst f))) (fields_of its) = true).
  { apply forallb_forall. intros f Hf. unfold fields_of in Hf. apply in_map_iff in Hf. destruct Hf as [i [<- Hi]].
    rewrite Forall_forall in H2. simpl. apply H2. exact Hi. }
  rewrite E1. cbn [negb].
  assert (E2 : has_dup (List.map (fun f => snd (fst f)) (fields_of its)) = false).
  { unfold fields_of. rewrite map_map. simpl. clear -H3. induction (List.map it_key its) as [|k ks IH]; simpl; auto.
    inversion H3; subst. rewrite IH by assumption. rewrite orb_false_r.
    destruct (str_mem k ks) eqn:E; auto. apply str_mem_In in E. contradiction. }
  rewrite E2.
  assert (E3 : existsb (fun f => match snd (fst f) with c :: _ => is_digit c | [] => true end) (fields_of its) = false).
  { clear -H4. induction its as [|i its IH]; simpl; auto. inversion H4; subst. rewrite IH by assumption.
    rewrite orb_false_r. destruct (it_key i); [contradiction|assumption]. }
  rewrite E3. reflexivity.
Qed.
