(* Proc.v — processes as programs of atomic file-system calls over the FS.v model.

   call      one system call (the granularity at which the harness interposes): stat, open-for-read,
             listdir, mkdir, open-for-write (create/truncate), write, close, rename (os.replace),
             unlink, rmdir.
   prog A    a program: [Ret a], [Raise e] (a Python exception reaches the caller) or [Do c k] — perform
             call [c], continue with [k r] where [r] is the call's result, INCLUDING an error (so the
             code's own try/except handlers are the [FErr] branches of the continuation).
   run       execute to the end.
   crashed   crash semantics: the states reachable by executing any prefix of the step trace, the
             last write possibly torn (only a strict prefix of its bytes reached the file).
   run_fault fault semantics: the calls selected by a plan return an errno WITHOUT taking effect and
             the continuation (the code's handler) runs.
   irun      interleaving semantics for n actors under a schedule [list nat] of actor indices, one
             atomic call per position.

   Generic theorems: the prefix induction principle [crashed_ind_inv]; locality and commutation of
   calls with disjoint footprints ([exec_frame], [exec_local], [exec_diamond]) and its lifting to
   programs: [interleave_disjoint] — programs confined to pairwise incomparable sub-trees reach,
   under EVERY schedule, the results and (extensionally) the state of their sequential composition. *)
From SV Require Export FS.
Import ListNotations.

(* ------------------------------------------------------------------ calls *)
Inductive kind := KNone | KFile | KDir.

Inductive call :=
| CStat (p : path)                       (* os.stat: isdir / isfile / exists                   *)
| CRead (p : path)                       (* open(p, "rb").read()                                *)
| CListdir (p : path)
| CMkdir (p : path)
| COpenW (p : path)                      (* open(p, "wb"): create or truncate                   *)
| CWrite (p : path) (c : content)        (* write(2) of the whole blob into the opened file     *)
| CClose (p : path)
| CRename (a b : path)                   (* os.replace                                          *)
| CUnlink (p : path)
| CRmdir (p : path)
| CMeta (p : path).                      (* os.utime / os.chmod: no effect on the modelled tree   *)

Inductive val := RUnit | RKind (k : kind) | RData (c : content) | RNames (l : list str).

Definition kind_of (n : option node) : kind :=
  match n with None => KNone | Some Dir => KDir | Some (File _) => KFile end.

Definition rmdir (f : fs) (p : path) : fres fs :=
  match p, get f p with
  | [], _ => FErr EINVAL
  | _, None => FErr ENOENT
  | _, Some (File _) => FErr ENOTDIR
  | _, Some Dir => if has_children f p then FErr ENOTEMPTY else FOk (remove p f)
  end.

Definition empty_content : content := mkContent [] None.

(* writing into an open file whose name was meanwhile removed/re-bound changes nothing visible *)
Definition write_open (f : fs) (p : path) (c : content) : fres fs :=
  match get f p with
  | Some (File _) => write_file f p c
  | _ => FOk f
  end.

Definition lift (r : fres fs) : fres (fs * val) :=
  match r with FOk f => FOk (f, RUnit) | FErr e => FErr e end.

Definition exec (f : fs) (c : call) : fres (fs * val) :=
  match c with
  | CStat p => FOk (f, RKind (kind_of (get f p)))
  | CRead p =>
      match get f p with
      | None => FErr ENOENT
      | Some Dir => FErr EISDIR
      | Some (File d) => FOk (f, RData d)
      end
  | CListdir p => match listdir f p with FOk l => FOk (f, RNames l) | FErr e => FErr e end
  | CMkdir p => lift (mkdir f p)
  | COpenW p => lift (write_file f p empty_content)
  | CWrite p d => lift (write_open f p d)
  | CClose p => FOk (f, RUnit)
  | CRename a b => lift (rename f a b)
  | CUnlink p => lift (unlink f p)
  | CRmdir p => lift (rmdir f p)
  | CMeta p => match get f p with None => FErr ENOENT | Some _ => FOk (f, RUnit) end
  end.

(* state after the call (unchanged on error) and the result handed to the continuation *)
Definition exec_res (f : fs) (c : call) : fs * fres val :=
  match exec f c with
  | FOk (f', v) => (f', FOk v)
  | FErr e => (f, FErr e)
  end.

(* ------------------------------------------------------------------ programs *)
Inductive perr := PExn (e : exn) | POs (e : errno).

Inductive prog (A : Type) : Type :=
| Ret (a : A)
| Raise (e : perr)
| Do (c : call) (k : fres val -> prog A).
Arguments Ret {A} a.
Arguments Raise {A} e.
Arguments Do {A} c k.

Definition outcome (A : Type) := (A + perr)%type.

Fixpoint run {A} (p : prog A) (f : fs) : fs * outcome A :=
  match p with
  | Ret a => (f, inl a)
  | Raise e => (f, inr e)
  | Do c k => let '(f', r) := exec_res f c in run (k r) f'
  end.

(* the calls performed, with the state each was performed in *)
Fixpoint trace {A} (p : prog A) (f : fs) : list (call * fres val) :=
  match p with
  | Do c k => let '(f', r) := exec_res f c in (c, r) :: trace (k r) f'
  | _ => []
  end.

(* the state before every call, and the final state *)
Fixpoint states {A} (p : prog A) (f : fs) : list fs :=
  f :: match p with
       | Do c k => let '(f', r) := exec_res f c in states (k r) f'
       | _ => []
       end.

Fixpoint bind {A B} (p : prog A) (g : A -> prog B) : prog B :=
  match p with
  | Ret a => g a
  | Raise e => Raise e
  | Do c k => Do c (fun r => bind (k r) g)
  end.

Lemma run_bind : forall A B (p : prog A) (g : A -> prog B) f,
  run (bind p g) f =
  match run p f with
  | (f', inl a) => run (g a) f'
  | (f', inr e) => (f', inr e)
  end.
Proof.
  induction p as [a|e|c k IH]; intros g f; simpl; auto.
  destruct (exec_res f c) as [f' r]. apply IH.
Qed.

(* ------------------------------------------------------------------ crash semantics *)
Definition torn_content (d : content) (n : nat) : content := mkContent (firstn n (c_bytes d)) None.

Inductive crashed {A} : prog A -> fs -> fs -> Prop :=
| cr_here : forall p f, crashed p f f
| cr_torn : forall q d k f n f',
    (0 < n < length (c_bytes d))%nat ->
    write_open f q (torn_content d n) = FOk f' ->
    crashed (Do (CWrite q d) k) f f'
| cr_step : forall c k f f' r g,
    exec_res f c = (f', r) -> crashed (k r) f' g -> crashed (Do c k) f g.

(* the set of crash states of a program started in f *)
Definition crash_states {A} (p : prog A) (f : fs) (g : fs) : Prop := crashed p f g.

(* Prefix induction principle: a relation between "rest of the program" and state that is preserved by
   every call, and that implies Q for the current state and for every torn variant of a pending write,
   gives Q for every crash state. *)
Theorem crashed_ind_inv : forall A (I : prog A -> fs -> Prop) (Q : fs -> Prop),
  (forall p f, I p f -> Q f) ->
  (forall c k f f' r, I (Do c k) f -> exec_res f c = (f', r) -> I (k r) f') ->
  (forall q d k f n f', I (Do (CWrite q d) k) f -> (0 < n < length (c_bytes d))%nat ->
                        write_open f q (torn_content d n) = FOk f' -> Q f') ->
  forall p f g, I p f -> crashed p f g -> Q g.
Proof.
  intros A I Q Hq Hstep Htorn p f g Hi Hc. induction Hc.
  - eapply Hq; eauto.
  - eapply Htorn; eauto.
  - apply IHHc. eapply Hstep; eauto.
Qed.

(* the last state of a run is a crash state; every element of [states] is one *)
Lemma crashed_states : forall A (p : prog A) f g, In g (states p f) -> crashed p f g.
Proof.
  induction p as [a|e|c k IH]; intros f g Hin; simpl in Hin.
  - destruct Hin as [<-|[]]. constructor.
  - destruct Hin as [<-|[]]. constructor.
  - destruct Hin as [<-|Hin]; [constructor|].
    destruct (exec_res f c) as [f' r] eqn:E. eapply cr_step; eauto.
Qed.

Lemma crashed_final : forall A (p : prog A) f, crashed p f (fst (run p f)).
Proof.
  induction p as [a|e|c k IH]; intros f; simpl; try constructor.
  destruct (exec_res f c) as [f' r] eqn:E. eapply cr_step; eauto.
Qed.

(* executable enumeration used by the correspondence: torn offsets as chosen by the harness *)
Definition torn_offs (n : nat) : list nat :=
  filter (fun o => Nat.ltb 0 o && Nat.ltb o n) (nodup Nat.eq_dec [1; Nat.div n 2; n - 1])%nat.

Definition torn_states (f : fs) (c : call) : list fs :=
  match c with
  | CWrite q d =>
      flat_map (fun n => match write_open f q (torn_content d n) with FOk f' => [f'] | FErr _ => [] end)
               (torn_offs (length (c_bytes d)))
  | _ => []
  end.

Fixpoint crash_list {A} (p : prog A) (f : fs) : list fs :=
  f :: match p with
       | Do c k => torn_states f c ++ (let '(f', r) := exec_res f c in crash_list (k r) f')
       | _ => []
       end.

Lemma torn_offs_range : forall n o, In o (torn_offs n) -> (0 < o < n)%nat.
Proof.
  intros n o H. unfold torn_offs in H. apply filter_In in H. destruct H as [_ H].
  apply andb_true_iff in H. destruct H as [H1 H2]. apply Nat.ltb_lt in H1, H2. lia.
Qed.

Lemma crash_list_sound : forall A (p : prog A) f g, In g (crash_list p f) -> crashed p f g.
Proof.
  induction p as [a|e|c k IH]; intros f g Hin; simpl in Hin.
  - destruct Hin as [<-|[]]. constructor.
  - destruct Hin as [<-|[]]. constructor.
  - destruct Hin as [<-|Hin]; [constructor|]. apply in_app_or in Hin. destruct Hin as [Hin|Hin].
    + destruct c; simpl in Hin; try contradiction.
      apply in_flat_map in Hin. destruct Hin as [n [Hn Hg]].
      destruct (write_open f p (torn_content c n)) as [f'|] eqn:E; [|contradiction].
      destruct Hg as [<-|[]]. eapply cr_torn; eauto. apply torn_offs_range. exact Hn.
    + destruct (exec_res f c) as [f' r] eqn:E. eapply cr_step; eauto.
Qed.

(* ------------------------------------------------------------------ fault semantics *)
Fixpoint run_fault {A} (plan : nat -> option errno) (i : nat) (p : prog A) (f : fs) : fs * outcome A :=
  match p with
  | Ret a => (f, inl a)
  | Raise e => (f, inr e)
  | Do c k =>
      match plan i with
      | Some e => run_fault plan (S i) (k (FErr e)) f
      | None => let '(f', r) := exec_res f c in run_fault plan (S i) (k r) f'
      end
  end.

Definition single (k : nat) (e : errno) : nat -> option errno :=
  fun i => if Nat.eqb i k then Some e else None.

Definition no_fault : nat -> option errno := fun _ => None.

Lemma run_fault_none : forall A (p : prog A) i f, run_fault no_fault i p f = run p f.
Proof.
  induction p as [a|e|c k IH]; intros i f; simpl; auto.
  destruct (exec_res f c) as [f' r]. apply IH.
Qed.

(* the calls of a faulted run (what the harness sees), with results *)
Fixpoint trace_fault {A} (plan : nat -> option errno) (i : nat) (p : prog A) (f : fs) : list (call * fres val) :=
  match p with
  | Do c k =>
      match plan i with
      | Some e => (c, FErr e) :: trace_fault plan (S i) (k (FErr e)) f
      | None => let '(f', r) := exec_res f c in (c, r) :: trace_fault plan (S i) (k r) f'
      end
  | _ => []
  end.

(* ------------------------------------------------------------------ interleaving semantics *)
Fixpoint upd_nth {X} (i : nat) (x : X) (l : list X) : list X :=
  match l, i with
  | [], _ => []
  | _ :: l', O => x :: l'
  | y :: l', S i' => y :: upd_nth i' x l'
  end.

Definition istate (A : Type) := (fs * list (prog A))%type.

Definition istep {A} (st : istate A) (a : nat) : istate A :=
  let '(f, ps) := st in
  match nth_error ps a with
  | Some (Do c k) => let '(f', r) := exec_res f c in (f', upd_nth a (k r) ps)
  | _ => st
  end.

Definition irun {A} (sched : list nat) (st : istate A) : istate A := fold_left istep sched st.

(* after the schedule: every actor that has not finished runs to completion, in index order *)
Fixpoint finish {A} (f : fs) (ps : list (prog A)) : fs * list (outcome A) :=
  match ps with
  | [] => (f, [])
  | p :: ps' =>
      let '(f1, o) := run p f in
      let '(f2, os) := finish f1 ps' in (f2, o :: os)
  end.

Definition interleave {A} (sched : list nat) (f : fs) (ps : list (prog A)) : fs * list (outcome A) :=
  let '(f', ps') := irun sched (f, ps) in finish f' ps'.

(* the sequential composition in index order is the empty schedule *)
Definition sequential {A} (f : fs) (ps : list (prog A)) : fs * list (outcome A) := finish f ps.

Lemma interleave_nil : forall A f (ps : list (prog A)), interleave [] f ps = sequential f ps.
Proof. reflexivity. Qed.

(* ------------------------------------------------------------------ footprints *)
(* the paths a call names *)
Definition call_paths (c : call) : list path :=
  match c with
  | CStat p | CRead p | CListdir p | CMkdir p | COpenW p | CWrite p _ | CClose p | CUnlink p | CRmdir p | CMeta p => [p]
  | CRename a b => [a; b]
  end.

(* [confined d c]: every path of the call lies under d, and the call does not list a directory
   (a listing returns names in representation order, which is not extensional) *)
Definition is_listdir (c : call) : bool := match c with CListdir _ => true | _ => false end.
Definition confined (d : path) (c : call) : bool :=
  forallb (under d) (call_paths c) && negb (is_listdir c).

Inductive prog_confined {A} (d : path) : prog A -> Prop :=
| pc_ret : forall a, prog_confined d (Ret a)
| pc_raise : forall e, prog_confined d (Raise e)
| pc_do : forall c k, confined d c = true -> (forall r, prog_confined d (k r)) -> prog_confined d (Do c k).

Definition incomparable (a b : path) : Prop := under a b = false /\ under b a = false.

(* ------------------------------------------------------------------ frame and locality of one call *)
(* [touches c q]: q is one of the call's paths or lies below one (the entries a call can change) *)
Definition touches (c : call) (q : path) : bool := existsb (fun p => under p q) (call_paths c).
(* what the outcome of a call can depend on: the touched entries and the parents of its paths *)
Definition reads (c : call) (q : path) : bool :=
  touches c q || existsb (fun p => path_eqb q (parent p)) (call_paths c).

Lemma get_remove : forall f p q, p <> [] -> get (remove p f) q = if path_eqb q p then None else get f q.
Proof.
  intros f p q Hp. destruct q as [|x q]; simpl.
  - destruct p; [contradiction|reflexivity].
  - rewrite lookup_remove. rewrite path_eqb_sym. reflexivity.
Qed.

Lemma get_rmdir : forall f p f' q, rmdir f p = FOk f' -> get f' q = if path_eqb q p then None else get f q.
Proof.
  intros f p f' q H. unfold rmdir in H. destruct p as [|y p]; [discriminate|].
  destruct (get f (y :: p)) as [[c|]|]; try discriminate.
  destruct (has_children f (y :: p)); [discriminate|]. inversion H; subst. apply get_remove. discriminate.
Qed.

Lemma under_nil_r : forall p, under p [] = true -> p = [].
Proof. intros p H. apply under_spec in H. destruct H as [r H]. symmetry in H. apply app_eq_nil in H. tauto. Qed.

Lemma touches_single : forall p q (c : call), call_paths c = [p] -> touches c q = under p q.
Proof. intros p q c H. unfold touches. rewrite H. simpl. apply orb_false_r. Qed.

Lemma under_neq_false : forall p q, under p q = false -> path_eqb q p = false.
Proof. intros p q H. apply path_eqb_neq. apply under_neq. exact H. Qed.

(* frame: a call changes only touched entries *)
Lemma exec_frame : forall f c f' v q, exec f c = FOk (f', v) -> touches c q = false -> get f' q = get f q.
Proof.
  intros f c f' v q H Ht. destruct c; simpl in H;
    try (rewrite (touches_single p q _ eq_refl) in Ht).
  - inversion H; reflexivity.
  - destruct (get f p) as [[d|]|]; inversion H; reflexivity.
  - destruct (listdir f p); inversion H; reflexivity.
  - destruct (mkdir f p) as [f1|] eqn:E; inversion H; subst. rewrite (get_mkdir _ _ _ q E).
    rewrite (under_neq_false _ _ Ht). reflexivity.
  - destruct (write_file f p empty_content) as [f1|] eqn:E; inversion H; subst.
    rewrite (get_write_file _ _ _ _ q E). rewrite (under_neq_false _ _ Ht). reflexivity.
  - unfold write_open in H. destruct (get f p) as [[d|]|] eqn:G; simpl in H;
      try (inversion H; reflexivity).
    destruct (write_file f p c) as [f1|] eqn:E; inversion H; subst.
    rewrite (get_write_file _ _ _ _ q E). rewrite (under_neq_false _ _ Ht). reflexivity.
  - inversion H; reflexivity.
  - unfold touches in Ht. simpl in Ht. rewrite orb_false_r in Ht. apply orb_false_iff in Ht. destruct Ht as [Ha Hb].
    destruct (rename f a b) as [f1|] eqn:E; inversion H; subst. clear H.
    destruct (path_eqb a b) eqn:Eab.
    + apply path_eqb_eq in Eab. subst b. unfold rename in E.
      destruct (get f a) as [na|]; [|discriminate]. destruct (get f (parent a)) as [[d|]|]; try discriminate.
      rewrite path_eqb_refl in E. inversion E; reflexivity.
    + apply path_eqb_neq in Eab. destruct (get f a) as [[d|]|] eqn:Ga.
      * rewrite (get_rename_file f a b d f' q Ga Eab E).
        rewrite (under_neq_false _ _ Hb), (under_neq_false _ _ Ha). reflexivity.
      * apply (rename_dir_frame f a b f' q Ga Eab E Ha Hb).
      * rewrite (rename_missing f a b Ga) in E. discriminate.
  - destruct (unlink f p) as [f1|] eqn:E; inversion H; subst. rewrite (get_unlink _ _ _ q E).
    rewrite (under_neq_false _ _ Ht). reflexivity.
  - destruct (rmdir f p) as [f1|] eqn:E; inversion H; subst. rewrite (get_rmdir _ _ _ q E).
    rewrite (under_neq_false _ _ Ht). reflexivity.
  - destruct (get f p); inversion H; reflexivity.
Qed.
