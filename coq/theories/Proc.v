(* Proc.v — processes as programs of atomic file-system calls over the FS.v model.

   call      one system call (the granularity at which the harness interposes): stat, open-for-read,
             listdir, mkdir, open-for-write (create/truncate), write, close, rename (os.replace),
             unlink, rmdir.
   prog A    a program: [Ret a], [Raise e] (a Python exception reaches the caller) or [Do c k] — perform
             call [c], continue with [k r] where [r] is the call's result, INCLUDING an error (so the
             code's own try/except handlers are the [FErr] branches of the continuation).
   run       execute to the end.
   crashed   crash semantics: the states reachable by executing any prefix of the step trace, the
             last write possibly torn (only a strict prefix of its bytes reached the file).
   run_fault fault semantics: the calls selected by a plan return an errno WITHOUT taking effect and
             the continuation (the code's handler) runs.
   irun      interleaving semantics for n actors under a schedule [list nat] of actor indices, one
             atomic call per position.

   Generic theorems: the prefix induction principle [crashed_ind_inv]; locality and commutation of
   calls with disjoint footprints ([exec_frame], [exec_local], [exec_diamond]) and its lifting to
   programs: [interleave_disjoint] — programs confined to pairwise incomparable sub-trees reach,
   under EVERY schedule, the results and (extensionally) the state of their sequential composition. *)
From SV Require Export FS.
Import ListNotations.

(* ------------------------------------------------------------------ calls *)
Inductive kind := KNone | KFile | KDir.

Inductive call :=
| CStat (p : path)                       (* os.stat: isdir / isfile / exists                   *)
| CRead (p : path)                       (* open(p, "rb").read()                                *)
| CListdir (p : path)
| CMkdir (p : path)
| COpenW (p : path)                      (* open(p, "wb"): create or truncate                   *)
| CWrite (p : path) (c : content)        (* write(2) of the whole blob into the opened file     *)
| CClose (p : path)
| CRename (a b : path)                   (* os.replace                                          *)
| CUnlink (p : path)
| CRmdir (p : path)
| CMeta (p : path).                      (* os.utime / os.chmod: no effect on the modelled tree   *)

Inductive val := RUnit | RKind (k : kind) | RData (c : content) | RNames (l : list str).

Definition kind_of (n : option node) : kind :=
  match n with None => KNone | Some Dir => KDir | Some (File _) => KFile end.

Definition rmdir (f : fs) (p : path) : fres fs :=
  match p, get f p with
  | [], _ => FErr EINVAL
  | _, None => FErr ENOENT
  | _, Some (File _) => FErr ENOTDIR
  | _, Some Dir => if has_children f p then FErr ENOTEMPTY else FOk (remove p f)
  end.

Definition empty_content : content := mkContent [] None.

(* writing into an open file whose name was meanwhile removed/re-bound changes nothing visible *)
Definition write_open (f : fs) (p : path) (c : content) : fres fs :=
  match get f p with
  | Some (File _) => write_file f p c
  | _ => FOk f
  end.

Definition lift (r : fres fs) : fres (fs * val) :=
  match r with FOk f => FOk (f, RUnit) | FErr e => FErr e end.

Definition exec (f : fs) (c : call) : fres (fs * val) :=
  match c with
  | CStat p => FOk (f, RKind (kind_of (get f p)))
  | CRead p =>
      match get f p with
      | None => FErr ENOENT
      | Some Dir => FErr EISDIR
      | Some (File d) => FOk (f, RData d)
      end
  | CListdir p => match listdir f p with FOk l => FOk (f, RNames l) | FErr e => FErr e end
  | CMkdir p => lift (mkdir f p)
  | COpenW p => lift (write_file f p empty_content)
  | CWrite p d => lift (write_open f p d)
  | CClose p => FOk (f, RUnit)
  | CRename a b => lift (rename f a b)
  | CUnlink p => lift (unlink f p)
  | CRmdir p => lift (rmdir f p)
  | CMeta p => match get f p with None => FErr ENOENT | Some _ => FOk (f, RUnit) end
  end.

(* state after the call (unchanged on error) and the result handed to the continuation *)
Definition exec_res (f : fs) (c : call) : fs * fres val :=
  match exec f c with
  | FOk (f', v) => (f', FOk v)
  | FErr e => (f, FErr e)
  end.

(* ------------------------------------------------------------------ programs *)
Inductive perr := PExn (e : exn) | POs (e : errno).

Inductive prog (A : Type) : Type :=
| Ret (a : A)
| Raise (e : perr)
| Do (c : call) (k : fres val -> prog A).
Arguments Ret {A} a.
Arguments Raise {A} e.
Arguments Do {A} c k.

Definition outcome (A : Type) := (A + perr)%type.

Fixpoint run {A} (p : prog A) (f : fs) : fs * outcome A :=
  match p with
  | Ret a => (f, inl a)
  | Raise e => (f, inr e)
  | Do c k => let '(f', r) := exec_res f c in run (k r) f'
  end.

(* the calls performed, with the state each was performed in *)
Fixpoint trace {A} (p : prog A) (f : fs) : list (call * fres val) :=
  match p with
  | Do c k => let '(f', r) := exec_res f c in (c, r) :: trace (k r) f'
  | _ => []
  end.

(* the state before every call, and the final state *)
Fixpoint states {A} (p : prog A) (f : fs) : list fs :=
  f :: match p with
       | Do c k => let '(f', r) := exec_res f c in states (k r) f'
       | _ => []
       end.

Fixpoint bind {A B} (p : prog A) (g : A -> prog B) : prog B :=
  match p with
  | Ret a => g a
  | Raise e => Raise e
  | Do c k => Do c (fun r => bind (k r) g)
  end.

Lemma run_bind : forall A B (p : prog A) (g : A -> prog B) f,
  run (bind p g) f =
  match run p f with
  | (f', inl a) => run (g a) f'
  | (f', inr e) => (f', inr e)
  end.
Proof.
  induction p as [a|e|c k IH]; intros g f; simpl; auto.
  destruct (exec_res f c) as [f' r]. apply IH.
Qed.

(* ------------------------------------------------------------------ crash semantics *)
Definition torn_content (d : content) (n : nat) : content := mkContent (firstn n (c_bytes d)) None.

Inductive crashed {A} : prog A -> fs -> fs -> Prop :=
| cr_here : forall p f, crashed p f f
| cr_torn : forall q d k f n f',
    (0 < n < length (c_bytes d))%nat ->
    write_open f q (torn_content d n) = FOk f' ->
    crashed (Do (CWrite q d) k) f f'
| cr_step : forall c k f f' r g,
    exec_res f c = (f', r) -> crashed (k r) f' g -> crashed (Do c k) f g.

(* the set of crash states of a program started in f *)
Definition crash_states {A} (p : prog A) (f : fs) (g : fs) : Prop := crashed p f g.

(* Prefix induction principle: a relation between "rest of the program" and state that is preserved by
   every call, and that implies Q for the current state and for every torn variant of a pending write,
   gives Q for every crash state. *)
Theorem crashed_ind_inv : forall A (I : prog A -> fs -> Prop) (Q : fs -> Prop),
  (forall p f, I p f -> Q f) ->
  (forall c k f f' r, I (Do c k) f -> exec_res f c = (f', r) -> I (k r) f') ->
  (forall q d k f n f', I (Do (CWrite q d) k) f -> (0 < n < length (c_bytes d))%nat ->
                        write_open f q (torn_content d n) = FOk f' -> Q f') ->
  forall p f g, I p f -> crashed p f g -> Q g.
Proof.
  intros A I Q Hq Hstep Htorn p f g Hi Hc. induction Hc.
  - eapply Hq; eauto.
  - eapply Htorn; eauto.
  - apply IHHc. eapply Hstep; eauto.
Qed.

(* the last state of a run is a crash state; every element of [states] is one *)
Lemma crashed_states : forall A (p : prog A) f g, In g (states p f) -> crashed p f g.
Proof.
  induction p as [a|e|c k IH]; intros f g Hin; simpl in Hin.
  - destruct Hin as [<-|[]]. constructor.
  - destruct Hin as [<-|[]]. constructor.
  - destruct Hin as [<-|Hin]; [constructor|].
    destruct (exec_res f c) as [f' r] eqn:E. eapply cr_step; eauto.
Qed.

Lemma crashed_final : forall A (p : prog A) f, crashed p f (fst (run p f)).
Proof.
  induction p as [a|e|c k IH]; intros f; simpl; try constructor.
  destruct (exec_res f c) as [f' r] eqn:E. eapply cr_step; eauto.
Qed.

(* executable enumeration used by the correspondence: torn offsets as chosen by the harness *)
Definition torn_offs (n : nat) : list nat :=
  filter (fun o => Nat.ltb 0 o && Nat.ltb o n) (nodup Nat.eq_dec [1; Nat.div n 2; n - 1])%nat.

Definition torn_states (f : fs) (c : call) : list fs :=
  match c with
  | CWrite q d =>
      flat_map (fun n => match write_open f q (torn_content d n) with FOk f' => [f'] | FErr _ => [] end)
               (torn_offs (length (c_bytes d)))
  | _ => []
  end.

Fixpoint crash_list {A} (p : prog A) (f : fs) : list fs :=
  f :: match p with
       | Do c k => torn_states f c ++ (let '(f', r) := exec_res f c in crash_list (k r) f')
       | _ => []
       end.

Lemma torn_offs_range : forall n o, In o (torn_offs n) -> (0 < o < n)%nat.
Proof.
  intros n o H. unfold torn_offs in H. apply filter_In in H. destruct H as [_ H].
  apply andb_true_iff in H. destruct H as [H1 H2]. apply Nat.ltb_lt in H1, H2. lia.
Qed.

Lemma crash_list_sound : forall A (p : prog A) f g, In g (crash_list p f) -> crashed p f g.
Proof.
  induction p as [a|e|c k IH]; intros f g Hin; simpl in Hin.
  - destruct Hin as [<-|[]]. constructor.
  - destruct Hin as [<-|[]]. constructor.
  - destruct Hin as [<-|Hin]; [constructor|]. apply in_app_or in Hin. destruct Hin as [Hin|Hin].
    + destruct c; simpl in Hin; try contradiction.
      apply in_flat_map in Hin. destruct Hin as [n [Hn Hg]].
      destruct (write_open f p (torn_content c n)) as [f'|] eqn:E; [|contradiction].
      destruct Hg as [<-|[]]. eapply cr_torn; eauto. apply torn_offs_range. exact Hn.
    + destruct (exec_res f c) as [f' r] eqn:E. eapply cr_step; eauto.
Qed.

(* ------------------------------------------------------------------ fault semantics *)
Fixpoint run_fault {A} (plan : nat -> option errno) (i : nat) (p : prog A) (f : fs) : fs * outcome A :=
  match p with
  | Ret a => (f, inl a)
  | Raise e => (f, inr e)
  | Do c k =>
      match plan i with
      | Some e => run_fault plan (S i) (k (FErr e)) f
      | None => let '(f', r) := exec_res f c in run_fault plan (S i) (k r) f'
      end
  end.

Definition single (k : nat) (e : errno) : nat -> option errno :=
  fun i => if Nat.eqb i k then Some e else None.

Definition no_fault : nat -> option errno := fun _ => None.

Lemma run_fault_none : forall A (p : prog A) i f, run_fault no_fault i p f = run p f.
Proof.
  induction p as [a|e|c k IH]; intros i f; simpl; auto.
  destruct (exec_res f c) as [f' r]. apply IH.
Qed.

(* the calls of a faulted run (what the harness sees), with results *)
Fixpoint trace_fault {A} (plan : nat -> option errno) (i : nat) (p : prog A) (f : fs) : list (call * fres val) :=
  match p with
  | Do c k =>
      match plan i with
      | Some e => (c, FErr e) :: trace_fault plan (S i) (k (FErr e)) f
      | None => let '(f', r) := exec_res f c in (c, r) :: trace_fault plan (S i) (k r) f'
      end
  | _ => []
  end.

(* ------------------------------------------------------------------ interleaving semantics *)
Fixpoint upd_nth {X} (i : nat) (x : X) (l : list X) : list X :=
  match l, i with
  | [], _ => []
  | _ :: l', O => x :: l'
  | y :: l', S i' => y :: upd_nth i' x l'
  end.

Definition istate (A : Type) := (fs * list (prog A))%type.

Definition istep {A} (st : istate A) (a : nat) : istate A :=
  let '(f, ps) := st in
  match nth_error ps a with
  | Some (Do c k) => let '(f', r) := exec_res f c in (f', upd_nth a (k r) ps)
  | _ => st
  end.

Definition irun {A} (sched : list nat) (st : istate A) : istate A := fold_left istep sched st.

(* after the schedule: every actor that has not finished runs to completion, in index order *)
Fixpoint finish {A} (f : fs) (ps : list (prog A)) : fs * list (outcome A) :=
  match ps with
  | [] => (f, [])
  | p :: ps' =>
      let '(f1, o) := run p f in
      let '(f2, os) := finish f1 ps' in (f2, o :: os)
  end.

Definition interleave {A} (sched : list nat) (f : fs) (ps : list (prog A)) : fs * list (outcome A) :=
  let '(f', ps') := irun sched (f, ps) in finish f' ps'.

(* the sequential composition in index order is the empty schedule *)
Definition sequential {A} (f : fs) (ps : list (prog A)) : fs * list (outcome A) := finish f ps.

Lemma interleave_nil : forall A f (ps : list (prog A)), interleave [] f ps = sequential f ps.
Proof. reflexivity. Qed.

(* ------------------------------------------------------------------ footprints *)
(* the paths a call names *)
Definition call_paths (c : call) : list path :=
  match c with
  | CStat p | CRead p | CListdir p | CMkdir p | COpenW p | CWrite p _ | CClose p | CUnlink p | CRmdir p | CMeta p => [p]
  | CRename a b => [a; b]
  end.

(* [confined d c]: every path of the call lies under d, and the call does not list a directory
   (a listing returns names in representation order, which is not extensional) *)
Definition is_listdir (c : call) : bool := match c with CListdir _ => true | _ => false end.
Definition confined (d : path) (c : call) : bool :=
  forallb (under d) (call_paths c) && negb (is_listdir c).

(* A program confined to the sub-tree d, relative to the initial state f0: every call names paths under d
   only — except that it may STAT a proper ancestor of d (os.makedirs looks at the parent directory);
   nothing confined elsewhere can change an ancestor, so such a stat returns what it returns in f0 and
   only that continuation has to be confined. *)
Inductive prog_confined {A} (f0 : fs) (d : path) : prog A -> Prop :=
| pc_ret : forall a, prog_confined f0 d (Ret a)
| pc_raise : forall e, prog_confined f0 d (Raise e)
| pc_do : forall c k, confined d c = true -> (forall r, prog_confined f0 d (k r)) -> prog_confined f0 d (Do c k)
| pc_anc : forall p k, under p d = true -> under d p = false ->
    prog_confined f0 d (k (FOk (RKind (kind_of (get f0 p))))) -> prog_confined f0 d (Do (CStat p) k).

Definition incomparable (a b : path) : Prop := under a b = false /\ under b a = false.

(* ------------------------------------------------------------------ frame and locality of one call *)
(* [touches c q]: q is one of the call's paths or lies below one (the entries a call can change) *)
Definition touches (c : call) (q : path) : bool := existsb (fun p => under p q) (call_paths c).
(* what the outcome of a call can depend on: the touched entries and the parents of its paths *)
Definition reads (c : call) (q : path) : bool :=
  touches c q || existsb (fun p => path_eqb q (parent p)) (call_paths c).

Lemma get_remove : forall f p q, p <> [] -> get (remove p f) q = if path_eqb q p then None else get f q.
Proof.
  intros f p q Hp. destruct q as [|x q]; simpl.
  - destruct p; [contradiction|reflexivity].
  - rewrite lookup_remove. rewrite path_eqb_sym. reflexivity.
Qed.

Lemma get_rmdir : forall f p f' q, rmdir f p = FOk f' -> get f' q = if path_eqb q p then None else get f q.
Proof.
  intros f p f' q H. unfold rmdir in H. destruct p as [|y p]; [discriminate|].
  destruct (get f (y :: p)) as [[c|]|]; try discriminate.
  destruct (has_children f (y :: p)); [discriminate|]. inversion H; subst. apply get_remove. discriminate.
Qed.

Lemma under_nil_r : forall p, under p [] = true -> p = [].
Proof. intros p H. apply under_spec in H. destruct H as [r H]. symmetry in H. apply app_eq_nil in H. tauto. Qed.

Lemma touches_single : forall p q (c : call), call_paths c = [p] -> touches c q = under p q.
Proof. intros p q c H. unfold touches. rewrite H. simpl. apply orb_false_r. Qed.

Lemma under_neq_false : forall p q, under p q = false -> path_eqb q p = false.
Proof. intros p q H. apply path_eqb_neq. apply under_neq. exact H. Qed.

(* frame: a call changes only touched entries *)
Lemma exec_frame : forall f c f' v q, exec f c = FOk (f', v) -> touches c q = false -> get f' q = get f q.
Proof.
  intros f c f' v q H Ht. unfold touches in Ht. destruct c; simpl in H, Ht; try rewrite orb_false_r in Ht.
  - inversion H; reflexivity.
  - destruct (get f p) as [[d|]|]; inversion H; reflexivity.
  - destruct (listdir f p); inversion H; reflexivity.
  - destruct (mkdir f p) as [f1|] eqn:E; inversion H; subst. rewrite (get_mkdir _ _ _ q E).
    rewrite (under_neq_false _ _ Ht). reflexivity.
  - destruct (write_file f p empty_content) as [f1|] eqn:E; inversion H; subst.
    rewrite (get_write_file _ _ _ _ q E). rewrite (under_neq_false _ _ Ht). reflexivity.
  - unfold write_open in H. destruct (get f p) as [[d|]|] eqn:G; simpl in H;
      try (inversion H; reflexivity).
    destruct (write_file f p c) as [f1|] eqn:E; inversion H; subst.
    rewrite (get_write_file _ _ _ _ q E). rewrite (under_neq_false _ _ Ht). reflexivity.
  - inversion H; reflexivity.
  - apply orb_false_iff in Ht. destruct Ht as [Ha Hb].
    destruct (rename f a b) as [f1|] eqn:E; inversion H; subst. clear H.
    destruct (path_eqb a b) eqn:Eab.
    + apply path_eqb_eq in Eab. subst b. unfold rename in E.
      destruct (get f a) as [na|]; [|discriminate]. destruct (get f (parent a)) as [[d|]|]; try discriminate.
      rewrite path_eqb_refl in E. inversion E; reflexivity.
    + apply path_eqb_neq in Eab. destruct (get f a) as [[d|]|] eqn:Ga.
      * rewrite (get_rename_file f a b d f' q Ga Eab E).
        rewrite (under_neq_false _ _ Hb), (under_neq_false _ _ Ha). reflexivity.
      * apply (rename_dir_frame f a b f' q Ga Eab E Ha Hb).
      * rewrite (rename_missing f a b Ga) in E. discriminate.
  - destruct (unlink f p) as [f1|] eqn:E; inversion H; subst. rewrite (get_unlink _ _ _ q E).
    rewrite (under_neq_false _ _ Ht). reflexivity.
  - destruct (rmdir f p) as [f1|] eqn:E; inversion H; subst. rewrite (get_rmdir _ _ _ q E).
    rewrite (under_neq_false _ _ Ht). reflexivity.
  - destruct (get f p); inversion H; reflexivity.
Qed.

Lemma has_children_agree : forall f g b,
  (forall q, under b q = true -> get f q = get g q) -> has_children f b = has_children g b.
Proof.
  intros f g b H.
  assert (K : forall f g, (forall q, under b q = true -> get f q = get g q) ->
                          has_children f b = true -> has_children g b = true).
  { intros f1 g1 H1 Hc. apply has_children_get in Hc. destruct Hc as [q [n [Hb Hq]]].
    apply has_children_get. exists q, n. split; auto. rewrite <- H1; auto. apply below_under. exact Hb. }
  destruct (has_children f b) eqn:E1, (has_children g b) eqn:E2; auto.
  - rewrite (K f g H E1) in E2. discriminate.
  - rewrite (K g f (fun q Hq => eq_sym (H q Hq)) E2) in E1. discriminate.
Qed.

Definition res_agree (c : call) (x y : fres (fs * val)) : Prop :=
  match x, y with
  | FOk (f', v), FOk (g', v') => v = v' /\ forall q, touches c q = true -> get f' q = get g' q
  | FErr e, FErr e' => e = e'
  | _, _ => False
  end.

Lemma reads_path : forall c p, In p (call_paths c) -> reads c p = true.
Proof.
  intros c p H. unfold reads, touches. apply orb_true_iff. left. apply existsb_exists. exists p. split; auto.
  apply under_refl.
Qed.

Lemma reads_parent : forall c p, In p (call_paths c) -> reads c (parent p) = true.
Proof.
  intros c p H. unfold reads. apply orb_true_iff. right. apply existsb_exists. exists p. split; auto.
  apply path_eqb_refl.
Qed.

Lemma reads_under : forall c p q, In p (call_paths c) -> under p q = true -> reads c q = true.
Proof.
  intros c p q H Hu. unfold reads, touches. apply orb_true_iff. left. apply existsb_exists. exists p. auto.
Qed.

Lemma rename_outcome_agree : forall f g a b,
  get g a = get f a -> get g (parent b) = get f (parent b) -> get g b = get f b ->
  has_children g b = has_children f b ->
  match rename f a b, rename g a b with
  | FOk _, FOk _ => True
  | FErr e, FErr e' => e = e'
  | _, _ => False
  end.
Proof.
  intros f g a b Ha Hp Hb Hc. unfold rename. rewrite Ha, Hp, Hb, Hc.
  destruct (get f a) as [[d|]|]; auto; destruct (get f (parent b)) as [[d'|]|]; auto;
    destruct (path_eqb a b); auto; destruct (get f b) as [[d''|]|]; auto;
    destruct (under a b); auto; destruct (under b a); auto; destruct (has_children f b); auto.
Qed.

Lemma rmdir_outcome_agree : forall f g p,
  get g p = get f p -> has_children g p = has_children f p ->
  match rmdir f p, rmdir g p with
  | FOk _, FOk _ => True
  | FErr e, FErr e' => e = e'
  | _, _ => False
  end.
Proof.
  intros f g p Hp Hc. unfold rmdir. destruct p as [|x p]; auto. rewrite Hp, Hc.
  destruct (get f (x :: p)) as [[d|]|]; auto. destruct (has_children f (x :: p)); auto.
Qed.

(* locality: the outcome of a call, and the new content of the entries it touches, depend only on
   the entries it reads *)
Lemma exec_agree : forall f g c, is_listdir c = false ->
  (forall q, reads c q = true -> get f q = get g q) -> res_agree c (exec f c) (exec g c).
Proof.
  intros f g c Hl H. unfold res_agree.
  destruct c; simpl in Hl; try discriminate; simpl.
  - (* stat *) rewrite (H p (reads_path (CStat p) p (or_introl eq_refl))). split; auto.
    intros q Hq. apply H. unfold reads. rewrite Hq. reflexivity.
  - (* read *) rewrite <- (H p (reads_path (CRead p) p (or_introl eq_refl))).
    destruct (get f p) as [[d|]|]; auto. split; auto. intros q Hq. apply H. unfold reads. rewrite Hq. reflexivity.
  - (* mkdir *)
    pose proof (H p (reads_path (CMkdir p) p (or_introl eq_refl))) as Hp.
    pose proof (H (parent p) (reads_parent (CMkdir p) p (or_introl eq_refl))) as Hpp.
    destruct (mkdir f p) as [f1|e1] eqn:E1; destruct (mkdir g p) as [g1|e2] eqn:E2; simpl;
      unfold mkdir in E1, E2; rewrite <- Hp, <- Hpp in E2;
      destruct (get f p); try discriminate; try congruence;
      destruct (get f (parent p)) as [[d|]|]; try discriminate; try congruence.
    split; auto. intros q Hq. inversion E1; inversion E2; subst.
    assert (Hne : p <> []) by (intro; subst; discriminate).
    rewrite !get_cons_entry by exact Hne. destruct (path_eqb q p); auto. apply H. unfold reads. rewrite Hq. reflexivity.
  - (* open for write *)
    pose proof (H p (reads_path (COpenW p) p (or_introl eq_refl))) as Hp.
    pose proof (H (parent p) (reads_parent (COpenW p) p (or_introl eq_refl))) as Hpp.
    destruct (write_file f p empty_content) as [f1|e1] eqn:E1; destruct (write_file g p empty_content) as [g1|e2] eqn:E2; simpl.
    + split; auto. intros q Hq. rewrite (get_write_file _ _ _ _ q E1), (get_write_file _ _ _ _ q E2).
      destruct (path_eqb q p); auto. apply H. unfold reads. rewrite Hq. reflexivity.
    + unfold write_file in E1, E2. rewrite <- Hp, <- Hpp in E2.
      destruct (get f p) as [[d|]|]; try discriminate; destruct (get f (parent p)) as [[d'|]|]; discriminate.
    + unfold write_file in E1, E2. rewrite <- Hp, <- Hpp in E2.
      destruct (get f p) as [[d|]|]; try discriminate; destruct (get f (parent p)) as [[d'|]|]; discriminate.
    + unfold write_file in E1, E2. rewrite <- Hp, <- Hpp in E2.
      destruct (get f p) as [[d|]|]; try congruence; destruct (get f (parent p)) as [[d'|]|]; congruence.
  - (* write *)
    pose proof (H p (reads_path (CWrite p c) p (or_introl eq_refl))) as Hp.
    pose proof (H (parent p) (reads_parent (CWrite p c) p (or_introl eq_refl))) as Hpp.
    unfold write_open. rewrite <- Hp.
    destruct (get f p) as [[d|]|] eqn:Gp; simpl;
      try (split; auto; intros q Hq; apply H; unfold reads; rewrite Hq; reflexivity).
    destruct (write_file f p c) as [f1|e1] eqn:E1; destruct (write_file g p c) as [g1|e2] eqn:E2; simpl.
    + split; auto. intros q Hq. rewrite (get_write_file _ _ _ _ q E1), (get_write_file _ _ _ _ q E2).
      destruct (path_eqb q p); auto. apply H. unfold reads. rewrite Hq. reflexivity.
    + unfold write_file in E1, E2. rewrite <- Hp, <- Hpp in E2. rewrite Gp in E1.
      destruct (get f (parent p)) as [[d'|]|]; discriminate.
    + unfold write_file in E1, E2. rewrite <- Hp, <- Hpp in E2. rewrite Gp in E1.
      destruct (get f (parent p)) as [[d'|]|]; discriminate.
    + unfold write_file in E1, E2. rewrite <- Hp, <- Hpp in E2. rewrite Gp in E1.
      destruct (get f (parent p)) as [[d'|]|]; congruence.
  - (* close *) split; auto. intros q Hq. apply H. unfold reads. rewrite Hq. reflexivity.
  - (* rename *)
    assert (Ia : In a (call_paths (CRename a b))) by (simpl; auto).
    assert (Ib : In b (call_paths (CRename a b))) by (simpl; auto).
    pose proof (H a (reads_path _ a Ia)) as Ha.
    pose proof (H b (reads_path _ b Ib)) as Hb.
    pose proof (H (parent b) (reads_parent _ b Ib)) as Hpb.
    assert (Hc : has_children g b = has_children f b).
    { symmetry. apply has_children_agree. intros q Hq. apply H. eapply reads_under; eauto. }
    pose proof (rename_outcome_agree f g a b (eq_sym Ha) (eq_sym Hpb) (eq_sym Hb) Hc) as Ho.
    destruct (rename f a b) as [f1|e1] eqn:E1; destruct (rename g a b) as [g1|e2] eqn:E2; simpl; try contradiction; auto.
    split; auto. intros q Hq.
    destruct (path_eqb a b) eqn:Eab.
    + apply path_eqb_eq in Eab. subst b. unfold rename in E1, E2.
      destruct (get f a) as [na|]; [|discriminate]. destruct (get g a) as [na'|]; [|discriminate].
      destruct (get f (parent a)) as [[d|]|]; try discriminate. destruct (get g (parent a)) as [[d'|]|]; try discriminate.
      rewrite path_eqb_refl in E1, E2. inversion E1; inversion E2; subst. apply H. unfold reads. rewrite Hq. reflexivity.
    + apply path_eqb_neq in Eab. destruct (get f a) as [[d|]|] eqn:Ga.
      * rewrite (get_rename_file f a b d f1 q Ga Eab E1).
        assert (Gg : get g a = Some (File d)) by congruence.
        rewrite (get_rename_file g a b d g1 q Gg Eab E2).
        destruct (path_eqb q b); auto. destruct (path_eqb q a); auto. apply H. unfold reads. rewrite Hq. reflexivity.
      * rewrite (get_rename_dir f a b f1 q Ga Eab E1).
        assert (Gg : get g a = Some Dir) by congruence.
        rewrite (get_rename_dir g a b g1 q Gg Eab E2).
        destruct (strip b q) as [r|] eqn:Es.
        -- apply H. eapply reads_under; [exact Ia|]. apply under_app.
        -- destruct (under a q); auto. apply H. unfold reads. rewrite Hq. reflexivity.
      * rewrite (rename_missing f a b Ga) in E1. discriminate.
  - (* unlink *)
    pose proof (H p (reads_path (CUnlink p) p (or_introl eq_refl))) as Hp.
    destruct (unlink f p) as [f1|e1] eqn:E1; destruct (unlink g p) as [g1|e2] eqn:E2; simpl;
      try (unfold unlink in E1, E2; rewrite <- Hp in E2; destruct (get f p) as [[d|]|]; congruence).
    split; auto. intros q Hq. rewrite (get_unlink _ _ _ q E1), (get_unlink _ _ _ q E2).
    destruct (path_eqb q p); auto. apply H. unfold reads. rewrite Hq. reflexivity.
  - (* rmdir *)
    pose proof (H p (reads_path (CRmdir p) p (or_introl eq_refl))) as Hp.
    assert (Hc : has_children g p = has_children f p).
    { symmetry. apply has_children_agree. intros q Hq. apply H. eapply reads_under; [left; reflexivity|exact Hq]. }
    pose proof (rmdir_outcome_agree f g p (eq_sym Hp) Hc) as Ho.
    destruct (rmdir f p) as [f1|e1] eqn:E1; destruct (rmdir g p) as [g1|e2] eqn:E2; simpl; try contradiction; auto.
    split; auto. intros q Hq. rewrite (get_rmdir _ _ _ q E1), (get_rmdir _ _ _ q E2).
    destruct (path_eqb q p); auto. apply H. unfold reads. rewrite Hq. reflexivity.
  - (* meta *) rewrite <- (H p (reads_path (CMeta p) p (or_introl eq_refl))).
    destruct (get f p); auto. split; auto. intros q Hq. apply H. unfold reads. rewrite Hq. reflexivity.
Qed.

(* ------------------------------------------------------------------ programs confined to a sub-tree *)
(* the region an actor confined to d can read: d's sub-tree and d's ancestors *)
Definition region (d q : path) : Prop := under d q = true \/ under q d = true.
Definition agree_on (d : path) (f g : fs) : Prop := forall q, region d q -> get f q = get g q.

Lemma under_parent_self : forall p, under (parent p) p = true.
Proof.
  intro p. destruct p as [|x p] using rev_ind; [reflexivity|].
  rewrite parent_snoc. apply under_app.
Qed.

Lemma parent_app_cons : forall (d : path) x r, parent (d ++ x :: r) = d ++ parent (x :: r).
Proof.
  intros d x r. unfold parent. rewrite removelast_app by discriminate. reflexivity.
Qed.

Lemma region_parent : forall d p, under d p = true -> region d (parent p).
Proof.
  intros d p H. apply under_spec in H. destruct H as [r ->]. destruct r as [|x r].
  - rewrite app_nil_r. right. apply under_parent_self.
  - left. rewrite parent_app_cons. apply under_app.
Qed.

Lemma confined_reads_region : forall d c q, confined d c = true -> reads c q = true -> region d q.
Proof.
  intros d c q Hc Hr. unfold confined in Hc. apply andb_true_iff in Hc. destruct Hc as [Hc _].
  rewrite forallb_forall in Hc. unfold reads, touches in Hr. apply orb_true_iff in Hr. destruct Hr as [Hr|Hr].
  - apply existsb_exists in Hr. destruct Hr as [p [Hin Hu]]. left. eapply under_trans; [apply Hc; exact Hin|exact Hu].
  - apply existsb_exists in Hr. destruct Hr as [p [Hin He]]. apply path_eqb_eq in He. subst q.
    apply region_parent. apply Hc. exact Hin.
Qed.

Lemma confined_touches_under : forall d c q, confined d c = true -> touches c q = true -> under d q = true.
Proof.
  intros d c q Hc Ht. unfold confined in Hc. apply andb_true_iff in Hc. destruct Hc as [Hc _].
  rewrite forallb_forall in Hc. unfold touches in Ht. apply existsb_exists in Ht. destruct Ht as [p [Hin Hu]].
  eapply under_trans; [apply Hc; exact Hin|exact Hu].
Qed.

(* one call of a confined program, performed in a state that agrees with the solo state on the region,
   gives the same result, keeps the agreement and changes nothing outside d *)
Lemma sim_call : forall d c f g f' r,
  confined d c = true -> agree_on d g f -> exec_res f c = (f', r) ->
  exists g', exec_res g c = (g', r) /\ agree_on d g' f' /\ (forall q, under d q = false -> get g' q = get g q).
Proof.
  intros d c f g f' r Hc Ha He.
  assert (Hl : is_listdir c = false).
  { unfold confined in Hc. apply andb_true_iff in Hc. destruct Hc as [_ Hc]. apply negb_true_iff in Hc. exact Hc. }
  assert (Hag : forall q, reads c q = true -> get g q = get f q).
  { intros q Hq. apply Ha. eapply confined_reads_region; eauto. }
  pose proof (exec_agree g f c Hl Hag) as R. unfold res_agree in R. unfold exec_res in *.
  destruct (exec g c) as [[g1 v1]|e1] eqn:Eg; destruct (exec f c) as [[f1 v2]|e2] eqn:Ef; try contradiction.
  - destruct R as [-> R]. inversion He; subst. exists g1. split; [reflexivity|]. split.
    + intros q Hq. destruct (touches c q) eqn:Et.
      * apply R. exact Et.
      * rewrite (exec_frame _ _ _ _ q Eg Et), (exec_frame _ _ _ _ q Ef Et). apply Ha. exact Hq.
    + intros q Hq. apply (exec_frame _ _ _ _ q Eg).
      destruct (touches c q) eqn:Et; auto. rewrite (confined_touches_under d c q Hc Et) in Hq. discriminate.
  - subst. inversion He; subst. exists g. split; [reflexivity|]. split; auto.
Qed.

(* reachability by executing calls *)
Inductive reach {A} : prog A -> fs -> prog A -> fs -> Prop :=
| reach_refl : forall p f, reach p f p f
| reach_step : forall c k f f' r p2 f2,
    exec_res f c = (f', r) -> reach (k r) f' p2 f2 -> reach (Do c k) f p2 f2.

Lemma reach_snoc : forall A (p0 : prog A) f0 c k f f' r,
  reach p0 f0 (Do c k) f -> exec_res f c = (f', r) -> reach p0 f0 (k r) f'.
Proof.
  intros A p0 f0 c k f f' r H. remember (Do c k) as p eqn:Ep. revert c k Ep f' r.
  induction H; intros c0 k0 Ep f'0 r0 He.
  - subst. eapply reach_step; [exact He|constructor].
  - eapply reach_step; [exact H|]. eapply IHreach; eauto.
Qed.

Lemma reach_run : forall A (p0 : prog A) f0 p f, reach p0 f0 p f -> run p0 f0 = run p f.
Proof.
  intros A p0 f0 p f H. induction H; auto. simpl. rewrite H. exact IHreach.
Qed.

Definition same_outside (d : path) (f f0 : fs) : Prop := forall q, under d q = false -> get f q = get f0 q.

(* one step of a confined program in its solo state f (equal to f0 outside d), mirrored in any state g
   that agrees with f on the region: same result, confinement and both relations are kept, and g changes
   only below d *)
Lemma sim_step : forall A f0 d c (k : fres val -> prog A) f g f' r,
  prog_confined f0 d (Do c k) -> same_outside d f f0 -> agree_on d g f -> exec_res f c = (f', r) ->
  prog_confined f0 d (k r) /\ same_outside d f' f0 /\
  exists g', exec_res g c = (g', r) /\ agree_on d g' f' /\ (forall q, under d q = false -> get g' q = get g q).
Proof.
  intros A f0 d c k f g f' r Hc Hso Ha He. inversion Hc; subst.
  - (* a call below d *)
    destruct (sim_call d c f g f' r H1 Ha He) as [g' [Eg [Ha' Hfr]]].
    split; [apply H2|]. split; [|exists g'; auto].
    destruct (sim_call d c f f f' r H1 (fun q _ => eq_refl) He) as [f2 [E2 [_ Hfr2]]].
    rewrite He in E2. inversion E2; subst f2. intros q Hq. rewrite Hfr2 by exact Hq. apply Hso. exact Hq.
  - (* stat of an ancestor *)
    unfold exec_res in He. simpl in He. inversion He; subst f' r. clear He.
    rewrite (Hso p H2). split; [exact H3|]. split; [exact Hso|].
    exists g. unfold exec_res. simpl. rewrite (Ha p (or_intror H1)), (Hso p H2). auto.
Qed.

Lemma reach_confined : forall A f0 d (p0 : prog A) f p f1,
  prog_confined f0 d p0 -> same_outside d f f0 -> reach p0 f p f1 ->
  prog_confined f0 d p /\ same_outside d f1 f0.
Proof.
  intros A f0 d p0 f p f1 Hc Hso H. induction H; auto.
  destruct (sim_step _ f0 d c k f f f' r Hc Hso (fun q _ => eq_refl) H) as [Hck [Hso' _]]. auto.
Qed.

(* running a confined program to the end in a state that agrees with the solo state *)
Lemma sim_run : forall A f0 d (p : prog A) f g,
  prog_confined f0 d p -> same_outside d f f0 -> agree_on d g f ->
  let '(f1, o1) := run p f in
  let '(g1, o2) := run p g in
  o1 = o2 /\ agree_on d g1 f1 /\ (forall q, under d q = false -> get g1 q = get g q).
Proof.
  induction p as [a|e|c k IH]; intros f g Hc Hso Ha; simpl; auto.
  destruct (exec_res f c) as [f' r] eqn:Ef.
  destruct (sim_step _ f0 d c k f g f' r Hc Hso Ha Ef) as [Hck [Hso' [g' [Eg [Ha' Hfr]]]]]. rewrite Eg.
  specialize (IH r f' g' Hck Hso' Ha').
  destruct (run (k r) f') as [f1 o1]. destruct (run (k r) g') as [g1 o2].
  destruct IH as [Ho [Hag Hfr2]]. split; auto. split; auto.
  intros q Hq. rewrite Hfr2 by exact Hq. apply Hfr. exact Hq.
Qed.

(* ------------------------------------------------------------------ disjoint-footprint commutation *)
Lemma region_disjoint : forall d1 d2 q, incomparable d1 d2 -> region d2 q -> under d1 q = false.
Proof.
  intros d1 d2 q [H12 H21] [Hr|Hr]; destruct (under d1 q) eqn:E; auto.
  - destruct (under_comparable d1 d2 q E Hr); congruence.
  - rewrite (under_trans d1 q d2 E Hr) in H12. discriminate.
Qed.

Lemma nth_error_upd_nth_same : forall X (l : list X) a x y, nth_error l a = Some y -> nth_error (upd_nth a x l) a = Some x.
Proof. induction l as [|z l IH]; intros [|a] x y H; simpl in *; try discriminate; eauto. Qed.

Lemma nth_error_upd_nth_other : forall X (l : list X) a j x, j <> a -> nth_error (upd_nth a x l) j = nth_error l j.
Proof.
  induction l as [|z l IH]; intros [|a] [|j] x H; simpl; auto; try congruence.
Qed.

Lemma map_upd_nth : forall X Y (g : X -> Y) (l : list X) a x, map g (upd_nth a x l) = upd_nth a (g x) (map g l).
Proof. induction l as [|z l IH]; intros [|a] x; simpl; auto. rewrite IH. reflexivity. Qed.

Section DISJOINT.
  Context {A : Type}.
  Variable f0 : fs.

  (* an actor: its directory, its program, and what is left of the program *)
  Record actor := { a_dir : path; a_init : prog A; a_cur : prog A }.

  Definition actor_ok (f : fs) (t : actor) : Prop :=
    prog_confined f0 (a_dir t) (a_init t) /\
    exists fi, reach (a_init t) f0 (a_cur t) fi /\ agree_on (a_dir t) f fi.

  Definition all_ok (f : fs) (ts : list actor) : Prop := forall j t, nth_error ts j = Some t -> actor_ok f t.

  Definition pairwise_incomparable (ts : list actor) : Prop :=
    forall i j ti tj, i <> j -> nth_error ts i = Some ti -> nth_error ts j = Some tj -> incomparable (a_dir ti) (a_dir tj).

  Definition outside (ts : list actor) (q : path) : Prop := forall t, In t ts -> under (a_dir t) q = false.

  Lemma actor_ok_frame : forall f f' d t,
    incomparable d (a_dir t) -> (forall q, under d q = false -> get f' q = get f q) -> actor_ok f t -> actor_ok f' t.
  Proof.
    intros f f' d t Hi Hfr [Hc [fi [Hr Ha]]]. split; auto. exists fi. split; auto.
    intros q Hq. rewrite Hfr; [apply Ha; exact Hq|]. eapply region_disjoint; eauto.
  Qed.

  Lemma istep_ok : forall f ts a,
    all_ok f ts -> pairwise_incomparable ts ->
    exists ts', istep (f, map a_cur ts) a = (fst (istep (f, map a_cur ts) a), map a_cur ts') /\
                map a_dir ts' = map a_dir ts /\ map a_init ts' = map a_init ts /\
                all_ok (fst (istep (f, map a_cur ts) a)) ts' /\
                (forall q, outside ts q -> get (fst (istep (f, map a_cur ts) a)) q = get f q).
  Proof.
    intros f ts a Hok Hpw. unfold istep. rewrite nth_error_map.
    destruct (nth_error ts a) as [t|] eqn:Et; simpl; [|exists ts; auto].
    destruct (a_cur t) as [x|e|c k] eqn:Ec; [exists ts; auto | exists ts; auto | ].
    destruct (Hok a t Et) as [Hc [fi [Hr Ha]]]. rewrite Ec in Hr.
    destruct (exec_res fi c) as [fi' r] eqn:Ei.
    destruct (reach_confined _ f0 _ _ _ _ _ Hc (fun q _ => eq_refl) Hr) as [Hcc Hso].
    destruct (sim_step _ f0 (a_dir t) c k fi f fi' r Hcc Hso Ha Ei) as [Hck [Hso' [f' [Ef [Ha' Hfr]]]]]. rewrite Ef. simpl.
    set (t' := {| a_dir := a_dir t; a_init := a_init t; a_cur := k r |}).
    exists (upd_nth a t' ts). split; [rewrite map_upd_nth; reflexivity|].
    assert (Hm : forall Y (g : actor -> Y), g t' = g t -> map g (upd_nth a t' ts) = map g ts).
    { intros Y g Hg. rewrite map_upd_nth, Hg. clear -Et. revert a Et. induction ts as [|z l IH]; intros [|a] Et; simpl in *; try discriminate; auto.
      - inversion Et; subst. reflexivity.
      - rewrite IH; auto. }
    split; [apply Hm; reflexivity|]. split; [apply Hm; reflexivity|]. split.
    - intros j tj Hj. destruct (Nat.eq_dec j a) as [->|Hne].
      + rewrite (nth_error_upd_nth_same _ _ _ _ _ Et) in Hj. inversion Hj; subst tj. split; auto.
        exists fi'. split; auto. simpl. eapply reach_snoc; eauto.
      + rewrite nth_error_upd_nth_other in Hj by exact Hne.
        eapply actor_ok_frame; [|exact Hfr|apply (Hok j tj Hj)]. apply (Hpw a j t tj); auto.
    - intros q Hq. apply Hfr. apply Hq. eapply nth_error_In; eauto.
  Qed.

  Lemma pairwise_transfer : forall ts ts',
    map a_dir ts' = map a_dir ts -> pairwise_incomparable ts -> pairwise_incomparable ts'.
  Proof.
    intros ts ts' Hd Hpw i j ti tj Hij Hi Hj.
    assert (Di : nth_error (map a_dir ts) i = Some (a_dir ti)) by (rewrite <- Hd, nth_error_map, Hi; reflexivity).
    assert (Dj : nth_error (map a_dir ts) j = Some (a_dir tj)) by (rewrite <- Hd, nth_error_map, Hj; reflexivity).
    rewrite nth_error_map in Di, Dj.
    destruct (nth_error ts i) as [ui|] eqn:Ui; [|discriminate]. destruct (nth_error ts j) as [uj|] eqn:Uj; [|discriminate].
    simpl in Di, Dj. injection Di as Di. injection Dj as Dj. rewrite <- Di, <- Dj. eapply Hpw; eauto.
  Qed.

  Lemma irun_ok : forall sched f ts,
    all_ok f ts -> pairwise_incomparable ts ->
    exists f' ts', irun sched (f, map a_cur ts) = (f', map a_cur ts') /\
                   map a_dir ts' = map a_dir ts /\ map a_init ts' = map a_init ts /\
                   all_ok f' ts' /\ (forall q, outside ts q -> get f' q = get f q).
  Proof.
    induction sched as [|a sched IH]; intros f ts Hok Hpw.
    - exists f, ts. simpl. auto.
    - destruct (istep_ok f ts a Hok Hpw) as [ts1 [E1 [Hd1 [Hi1 [Hok1 Hfr1]]]]].
      change (irun (a :: sched) (f, map a_cur ts)) with (irun sched (istep (f, map a_cur ts) a)).
      rewrite E1.
      assert (Hpw1 : pairwise_incomparable ts1).
      { eapply pairwise_transfer; eauto. }
      destruct (IH _ ts1 Hok1 Hpw1) as [f2 [ts2 [E2 [Hd2 [Hi2 [Hok2 Hfr2]]]]]].
      exists f2, ts2. split; [exact E2|]. split; [congruence|]. split; [congruence|]. split; auto.
      intros q Hq. rewrite Hfr2; [apply Hfr1; exact Hq|].
      intros t Ht. apply (in_map a_dir) in Ht. rewrite Hd1 in Ht. apply in_map_iff in Ht. destruct Ht as [u [Hu Hin]].
      rewrite <- Hu. apply Hq. exact Hin.
  Qed.

  (* running the remaining programs one after the other *)
  Lemma finish_ok : forall ts f,
    all_ok f ts -> pairwise_incomparable ts ->
    let '(f1, os) := finish f (map a_cur ts) in
    os = map (fun t => snd (run (a_init t) f0)) ts /\
    (forall t, In t ts -> agree_on (a_dir t) f1 (fst (run (a_init t) f0))) /\
    (forall q, outside ts q -> get f1 q = get f q).
  Proof.
    induction ts as [|t ts IH]; intros f Hok Hpw; simpl.
    - split; auto. split; [intros t []|auto].
    - destruct (Hok 0%nat t eq_refl) as [Hc [fi [Hr Ha]]].
      destruct (reach_confined _ f0 _ _ _ _ _ Hc (fun q _ => eq_refl) Hr) as [Hcc Hso].
      pose proof (sim_run _ f0 (a_dir t) (a_cur t) fi f Hcc Hso Ha) as S.
      rewrite <- (reach_run _ _ _ _ _ Hr) in S.
      destruct (run (a_init t) f0) as [fs1 o1] eqn:ER. destruct (run (a_cur t) f) as [f' o2].
      destruct S as [Ho [Hag Hfr]].
      assert (Hok' : all_ok f' ts).
      { intros j tj Hj. eapply actor_ok_frame; [|exact Hfr|apply (Hok (S j) tj Hj)].
        apply (Hpw 0%nat (S j) t tj); auto. }
      assert (Hpw' : pairwise_incomparable ts).
      { intros i j ti tj Hij Hi Hj. apply (Hpw (S i) (S j)); auto. }
      specialize (IH f' Hok' Hpw'). destruct (finish f' (map a_cur ts)) as [f2 os].
      destruct IH as [Hos [Hagr Hfr2]]. split; [simpl; congruence|]. split.
      + intros u [<-|Hu]; [|apply Hagr; exact Hu]. rewrite ER. simpl.
        intros q Hq. rewrite Hfr2; [apply Hag; exact Hq|].
        intros u Hu. destruct (In_nth_error _ _ Hu) as [j Hj].
        eapply region_disjoint; [|exact Hq]. apply (Hpw (S j) 0%nat u t); auto.
      + intros q Hq. rewrite Hfr2; [apply Hfr; apply Hq; left; reflexivity|].
        intros u Hu. apply Hq. right. exact Hu.
  Qed.
End DISJOINT.

Definition start_actors {A} (ds : list path) (ps : list (prog A)) : list (@actor A) :=
  map (fun dp => {| a_dir := fst dp; a_init := snd dp; a_cur := snd dp |}) (combine ds ps).

(* Programs confined to pairwise incomparable directories: under EVERY schedule each program obtains
   the result of running alone from the initial state, the final state holds, below each directory,
   what that solo run leaves there, and nothing else changes — hence (taking the empty schedule) the
   results and the state of the sequential composition. *)
Theorem interleave_disjoint : forall A (ds : list path) (ps : list (prog A)) f0 sched,
  length ds = length ps ->
  (forall i d p, nth_error ds i = Some d -> nth_error ps i = Some p -> prog_confined f0 d p) ->
  (forall i j di dj, i <> j -> nth_error ds i = Some di -> nth_error ds j = Some dj -> incomparable di dj) ->
  let '(f1, os) := interleave sched f0 ps in
  os = map (fun p => snd (run p f0)) ps /\
  (forall i d p, nth_error ds i = Some d -> nth_error ps i = Some p -> agree_on d f1 (fst (run p f0))) /\
  (forall q, (forall d, In d ds -> under d q = false) -> get f1 q = get f0 q).
Proof.
  intros A ds ps f0 sched Hlen Hconf Hinc.
  set (ts := start_actors ds ps).
  assert (Hcur : map a_cur ts = ps).
  { unfold ts, start_actors. rewrite map_map. simpl. clear -Hlen. revert ps Hlen.
    induction ds as [|d ds IH]; intros [|p ps] Hlen; simpl in *; try discriminate; auto. rewrite IH; auto. }
  assert (Hinit : map a_init ts = ps).
  { unfold ts, start_actors. rewrite map_map. simpl. clear -Hlen. revert ps Hlen.
    induction ds as [|d ds IH]; intros [|p ps] Hlen; simpl in *; try discriminate; auto. rewrite IH; auto. }
  assert (Hdir : map a_dir ts = ds).
  { unfold ts, start_actors. rewrite map_map. simpl. clear -Hlen. revert ps Hlen.
    induction ds as [|d ds IH]; intros [|p ps] Hlen; simpl in *; try discriminate; auto. rewrite IH; auto. }
  assert (Hnth : forall j t, nth_error ts j = Some t ->
                 nth_error ds j = Some (a_dir t) /\ nth_error ps j = Some (a_init t) /\ a_cur t = a_init t).
  { intros j t Hj. split; [|split].
    - rewrite <- Hdir, nth_error_map, Hj. reflexivity.
    - rewrite <- Hinit, nth_error_map, Hj. reflexivity.
    - unfold ts, start_actors in Hj. rewrite nth_error_map in Hj.
      destruct (nth_error (combine ds ps) j) as [[d p]|]; inversion Hj. reflexivity. }
  assert (Hok : all_ok f0 f0 ts).
  { intros j t Hj. destruct (Hnth j t Hj) as [Hd [Hp Hc]]. split; [eapply Hconf; eauto|].
    exists f0. rewrite Hc. split; [constructor|intros q _; reflexivity]. }
  assert (Hpw : pairwise_incomparable ts).
  { intros i j ti tj Hij Hi Hj. destruct (Hnth i ti Hi) as [Hdi _]. destruct (Hnth j tj Hj) as [Hdj _]. eapply Hinc; eauto. }
  unfold interleave. replace (irun sched (f0, ps)) with (irun sched (f0, map a_cur ts)) by (rewrite Hcur; reflexivity).
  destruct (irun_ok f0 sched f0 ts Hok Hpw) as [f' [ts' [E [Hd' [Hi' [Hok' Hfr']]]]]]. rewrite E.
  assert (Hpw' : pairwise_incomparable ts').
  { eapply pairwise_transfer; eauto. }
  pose proof (finish_ok f0 ts' f' Hok' Hpw') as F.
  destruct (finish f' (map a_cur ts')) as [f1 os]. destruct F as [Hos [Hag Hfr]].
  split; [|split].
  - rewrite Hos. rewrite <- (map_map a_init (fun p => snd (run p f0))). rewrite Hi', Hinit. reflexivity.
  - intros i d p Hd Hp.
    assert (Ht : exists t, nth_error ts' i = Some t /\ a_dir t = d /\ a_init t = p).
    { assert (Di : nth_error (map a_dir ts') i = Some d) by (rewrite Hd', Hdir; exact Hd).
      assert (Pi : nth_error (map a_init ts') i = Some p) by (rewrite Hi', Hinit; exact Hp).
      rewrite nth_error_map in Di, Pi. destruct (nth_error ts' i) as [t|]; [|discriminate].
      simpl in Di, Pi. inversion Di; inversion Pi. eauto. }
    destruct Ht as [t [Ht [<- <-]]]. apply Hag. eapply nth_error_In; eauto.
  - intros q Hq. rewrite Hfr.
    + apply Hfr'. intros t Ht. apply Hq. rewrite <- Hdir. apply in_map. exact Ht.
    + intros t Ht. apply Hq. rewrite <- Hdir, <- Hd'. apply in_map. exact Ht.
Qed.

Corollary interleave_disjoint_seq : forall A (ds : list path) (ps : list (prog A)) f0 sched,
  length ds = length ps ->
  (forall i d p, nth_error ds i = Some d -> nth_error ps i = Some p -> prog_confined f0 d p) ->
  (forall i j di dj, i <> j -> nth_error ds i = Some di -> nth_error ds j = Some dj -> incomparable di dj) ->
  snd (interleave sched f0 ps) = snd (sequential f0 ps) /\
  fs_eq (fst (interleave sched f0 ps)) (fst (sequential f0 ps)).
Proof.
  intros A ds ps f0 sched Hlen Hc Hi.
  pose proof (interleave_disjoint A ds ps f0 sched Hlen Hc Hi) as H1.
  pose proof (interleave_disjoint A ds ps f0 [] Hlen Hc Hi) as H2.
  rewrite interleave_nil in H2.
  destruct (interleave sched f0 ps) as [f1 os1]. destruct (sequential f0 ps) as [f2 os2]. simpl.
  destruct H1 as [Ho1 [Ha1 Hf1]]. destruct H2 as [Ho2 [Ha2 Hf2]]. split; [congruence|].
  intro q. destruct (existsb (fun d => under d q) ds) eqn:E.
  - apply existsb_exists in E. destruct E as [d [Hin Hu]].
    destruct (In_nth_error _ _ Hin) as [i Hd].
    assert (Hp : exists p, nth_error ps i = Some p).
    { destruct (nth_error ps i) as [p|] eqn:Ep; eauto. apply nth_error_None in Ep.
      assert (i < length ds)%nat by (apply nth_error_Some; congruence). lia. }
    destruct Hp as [p Hp].
    rewrite (Ha1 i d p Hd Hp q (or_introl Hu)). symmetry. apply (Ha2 i d p Hd Hp q (or_introl Hu)).
  - assert (Ho : forall d, In d ds -> under d q = false).
    { intros d Hd. destruct (under d q) eqn:Eu; auto.
      assert (existsb (fun d => under d q) ds = true) by (apply existsb_exists; eauto). congruence. }
    rewrite (Hf1 q Ho), (Hf2 q Ho). reflexivity.
Qed.
