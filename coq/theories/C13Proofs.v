(* C13Proofs.v — lemmas for props/C13.v; the proofs about the model live in SyncProofs / SyncDocProofs /
   SyncTopProofs (shared with C14 and C15). *)
From SV Require Export Base Json Canon Sync SyncObs CorrC13 CorrC14 SyncProofs SyncDocProofs SyncTopProofs.

Lemma run_sync_src_untouched : forall frepr cf o en src dst,
  ob_src (model_call frepr cf o en src dst) = src.
Proof. intros. unfold model_call, model_call_gen. destruct (run_sync_gen frepr cf false o en src dst). reflexivity. Qed.

Lemma model_case_src_untouched : forall frepr all cf i,
  ob_src (c_obs (model_case_gen frepr all cf i)) = i_src i.
Proof.
  intros. unfold model_case_gen, model_call_gen. cbn [c_obs].
  destruct (run_sync_gen frepr cf all (i_opts i) (i_entry i) (i_src i) (i_dst i)). reflexivity.
Qed.

(* ------------------------------------------------------------------ the directory a clone produces *)
Definition prune_top_list (ex_top ex : str -> bool) :=
  (fix go (l : list (str * node)) : list (str * node) :=
     match l with [] => [] | (k, x) :: l' => if ex_top k then go l' else (k, prune ex x) :: go l' end).

Lemma alookup_prune_top_list : forall ex_top ex k es,
  alookup k (prune_top_list ex_top ex es) =
  if ex_top k then None else match alookup k es with Some x => Some (prune ex x) | None => None end.
Proof.
  induction es as [|[k' x'] es IH]; simpl; [destruct (ex_top k); reflexivity|].
  destruct (ex_top k') eqn:Ek'.
  - rewrite IH. destruct (str_eqb k k') eqn:E; [|reflexivity].
    apply str_eqb_eq in E. subst. rewrite Ek'. reflexivity.
  - simpl. destruct (str_eqb k k') eqn:E; [|apply IH].
    apply str_eqb_eq in E. subst. rewrite Ek'. reflexivity.
Qed.

Lemma lookup_prune_top : forall ex_top ex k q es,
  lookup_path (k :: q) (prune_top ex_top ex (Dir es)) =
  if ex_top k then None
  else match alookup k es with Some x => lookup_path q (prune ex x) | None => None end.
Proof.
  intros. simpl.
  change ((fix go (l : list (str * node)) : list (str * node) :=
             match l with [] => [] | (k, x) :: l' => if ex_top k then go l' else (k, prune ex x) :: go l' end) es)
    with (prune_top_list ex_top ex es).
  rewrite alookup_prune_top_list. destruct (ex_top k); [reflexivity|]. destruct (alookup k es); reflexivity.
Qed.

(* a cloned job is the source job, path by path, without what the patterns exclude: directly in the job directory
   a user pattern that is not one of the job's own two files, below it any user pattern *)
Lemma clone_paths : forall frepr cf o id sd ws k q,
  fix_keep cf = true ->
  o_dry_run o = false -> alookup id ws = None ->
  fix_excl cf = false \/ (clone_excl o k = false /\ forallb (fun n => negb (o_exclude o n)) q = true) ->
  lookup_path (id :: k :: q) (Dir (fst (clone_or_sync frepr cf o (id, Dir sd) ws)))
  = match lookup_path (k :: q) (Dir sd) with
    | Some y => Some (touch (if fix_excl cf then prune (o_exclude o) y else y))
    | None => None
    end.
Proof.
  intros frepr cf o id sd ws k q Hkeep Hdry Hn Hp. rewrite (clone_exact frepr cf o id sd ws Hdry Hn). cbn [fst].
  rewrite lookup_snoc_new by assumption. rewrite lookup_path_touch.
  destruct (fix_excl cf).
  - destruct Hp as [Hp|[Hk Hq]]; [discriminate|].
    unfold clone_prune. rewrite Hkeep. rewrite lookup_prune_top. fold (clone_excl o k). rewrite Hk.
    rewrite lookup_path_cons. destruct (alookup k sd) as [x|]; [|reflexivity].
    rewrite lookup_path_prune_keep by assumption. destruct (lookup_path q x); reflexivity.
  - destruct (lookup_path (k :: q) (Dir sd)); reflexivity.
Qed.

From SV Require Export SyncIdemProofs SyncFlatProofs.

Lemma ws_superset_fixed : forall frepr cf, fix_ignore cf = true -> fix_funny cf = true ->
  forall p fuel o deep sdir ddir subdir d' c m,
  wf_node (Dir sdir) = true -> o_dry_run o = false ->
  sync_ws frepr cf fuel o deep sdir ddir subdir = (d', None) ->
  lookup_path p (Dir sdir) = Some (File c m) -> absent_in false p ddir = true ->
  (o_recursive o = true \/ length p = 1%nat) -> clear_path cf o p = true ->
  lookup_path p (Dir d') = Some (File c NOW).
Proof.
  intros frepr cf Hfi Hff p fuel o deep sdir ddir subdir d' c m Hwf Hdry Hrun Hs Ha Hr Hc.
  apply (ws_superset frepr cf p fuel o deep sdir ddir subdir d' c m); auto.
  apply forallb_forall. intros k _. unfold ignored. rewrite Hfi. reflexivity.
Qed.

Lemma model_holds_C13 : forall frepr cf i, wf_project (i_src i) = true ->
  let c := model_case frepr cf i in
  ob_rest_ok (c_obs c) = true /\ proj_eqb frepr (i_src i) (ob_src (c_obs c)) = true.
Proof.
  intros frepr cf i Hwf. cbv zeta. unfold model_case. rewrite model_case_src_untouched.
  split; [|apply proj_eqb_refl; assumption].
  unfold model_case_gen, model_call_gen. cbn [c_obs].
  destruct (run_sync_gen frepr cf false (i_opts i) (i_entry i) (i_src i) (i_dst i)). reflexivity.
Qed.

(* /repo as it is: the comparison no longer inherits filecmp's ignore list *)
Lemma ws_superset_current : forall frepr p fuel o deep sdir ddir subdir d' c m,
  wf_node (Dir sdir) = true -> o_dry_run o = false ->
  sync_ws frepr cfg_current fuel o deep sdir ddir subdir = (d', None) ->
  lookup_path p (Dir sdir) = Some (File c m) -> absent_in false p ddir = true ->
  (o_recursive o = true \/ length p = 1%nat) -> clear_path cfg_current o p = true ->
  lookup_path p (Dir d') = Some (File c NOW).
Proof. intros frepr. apply (ws_superset_fixed frepr cfg_current); reflexivity. Qed.

(* what "excluded" means in /repo now: a user pattern matches, or the name IS the state point / document file *)
Lemma excluded_current : forall o n,
  excluded cfg_current o n =
  (o_exclude o n
   || (o_top o && (str_eqb FN_SP n || match o_docsync o with DS_copy => false | _ => str_eqb FN_DOC n end))).
Proof. reflexivity. Qed.

(* below the top level of a job only the user's patterns exclude *)
Lemma excluded_below_current : forall o n, excluded cfg_current (set_top o false) n = o_exclude o n.
Proof. intros. unfold excluded, cfg_current, fix_own. cbn [o_top set_top o_exclude]. apply orb_false_r. Qed.

(* /repo as it is (74ea1a0, 618e7cc) *)
Lemma clone_paths_current : forall frepr o id sd ws k q,
  o_dry_run o = false -> alookup id ws = None ->
  clone_excl o k = false -> forallb (fun n => negb (o_exclude o n)) q = true ->
  lookup_path (id :: k :: q) (Dir (fst (clone_or_sync frepr cfg_current o (id, Dir sd) ws)))
  = match lookup_path (k :: q) (Dir sd) with
    | Some y => Some (touch (prune (o_exclude o) y))
    | None => None
    end.
Proof.
  intros frepr o id sd ws k q Hdry Hn Hk Hq.
  apply (clone_paths frepr cfg_current o id sd ws k q eq_refl Hdry Hn). right. split; assumption.
Qed.

(* 4239e5d: a walk that returns met no file / directory clash that was not excluded *)
Lemma kind_clash_never_silent : forall frepr fuel o deep sdir ddir subdir d' n,
  sync_ws frepr cfg_current (S fuel) o deep sdir ddir subdir = (d', None) ->
  In n (names cfg_current sdir) -> classify frepr deep n sdir ddir = Funny -> excluded cfg_current o n = true.
Proof. intros frepr fuel o deep sdir ddir subdir d' n. apply (ok_funny_excluded frepr cfg_current). reflexivity. Qed.
