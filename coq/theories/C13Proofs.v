(* C13Proofs.v — lemmas about the sync model used by props/C13.v *)
From SV Require Import Base Json Canon Sync SyncObs CorrC13.

Lemma run_sync_src_untouched : forall frepr cf o en src dst,
  ob_src (model_call frepr cf o en src dst) = src.
Proof. intros. unfold model_call, model_call_gen. destruct (run_sync_gen frepr cf false o en src dst). reflexivity. Qed.
