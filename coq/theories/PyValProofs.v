(* PyValProofs.v — facts about Python's == on numbers and the dict-slot relation. *)
From SV Require Import Base Json PyVal.
Local Open Scope Z_scope.

Lemma dy_cmp_E : forall m1 e1 m2 e2 E, E <= Z.min e1 e2 ->
  dy_cmp (m1, e1) (m2, e2) = Z.compare (m1 * 2 ^ (e1 - E)) (m2 * 2 ^ (e2 - E)).
Proof.
  intros m1 e1 m2 e2 E HE. unfold dy_cmp.
  set (mn := Z.min e1 e2) in *.
  assert (H1 : mn <= e1) by apply Z.le_min_l.
  assert (H2 : mn <= e2) by apply Z.le_min_r.
  replace (e1 - E) with ((e1 - mn) + (mn - E)) by lia.
  replace (e2 - E) with ((e2 - mn) + (mn - E)) by lia.
  rewrite !Z.pow_add_r by lia. rewrite !Z.mul_assoc.
  apply Zmult_compare_compat_r. apply Z.lt_gt. apply Z.pow_pos_nonneg; lia.
Qed.

Lemma dy_cmp_int : forall a b, dy_cmp (a, 0) (b, 0) = Z.compare a b.
Proof. intros. unfold dy_cmp. simpl. rewrite !Z.mul_1_r. reflexivity. Qed.

Lemma dy_cmp_scale_r : forall m1 e1 m e, 0 <= e ->
  dy_cmp (m1, e1) (m, e) = dy_cmp (m1, e1) (m * 2 ^ e, 0).
Proof.
  intros m1 e1 m e He.
  set (E := Z.min e1 0).
  assert (HE0 : E <= 0) by apply Z.le_min_r.
  assert (HE1 : E <= e1) by apply Z.le_min_l.
  rewrite (dy_cmp_E m1 e1 m e E) by (apply Z.min_glb; lia).
  rewrite (dy_cmp_E m1 e1 (m * 2 ^ e) 0 E) by (apply Z.min_glb; lia).
  f_equal. replace (e - E) with (e + (0 - E)) by lia.
  rewrite Z.pow_add_r by lia. ring.
Qed.

Lemma dy_cmp_refl : forall p, dy_cmp p p = Eq.
Proof. intros [m e]. unfold dy_cmp. apply Z.compare_refl. Qed.

(* an integer never equals a dyadic with odd mantissa and negative exponent *)
Lemma dy_cmp_int_nonint : forall z m e, e < 0 -> Z.odd m = true -> dy_cmp (z, 0) (m, e) <> Eq.
Proof.
  intros z m e He Hodd H. rewrite (dy_cmp_E z 0 m e e) in H by (apply Z.min_glb; lia).
  apply Z.compare_eq in H. replace (e - e) with 0 in H by lia. rewrite Z.mul_1_r in H.
  assert (Hev : Z.even (z * 2 ^ (0 - e)) = true).
  { rewrite Z.even_mul. replace (0 - e) with (Z.succ (- e - 1)) by lia.
    rewrite Z.pow_succ_r by lia. rewrite Z.even_mul. simpl. apply orb_true_r. }
  rewrite H in Hev. rewrite <- Z.negb_odd, Hodd in Hev. discriminate.
Qed.

Lemma dy_cmp_sym_eq : forall p q, dy_cmp p q = Eq -> dy_cmp q p = Eq.
Proof.
  intros [m1 e1] [m2 e2] H. unfold dy_cmp in *. rewrite Z.min_comm.
  apply Z.compare_eq in H. rewrite H. apply Z.compare_refl.
Qed.

(* ---------- reflexivity of py_eq on well-formed values ---------- *)
Lemma py_eq_refl : forall v, wf v = true -> py_eq v v = true.
Proof.
  induction v using json_ind'; intro Hw; simpl; auto.
  - destruct b; reflexivity.
  - rewrite Z.compare_refl. reflexivity.
  - destruct f as [m e]. simpl. destruct (Z.eqb m 0); rewrite Z.compare_refl; reflexivity.
  - apply str_eqb_refl.
  - simpl in Hw. induction H as [|x l Hx Hl IH]; auto.
    simpl in Hw. apply andb_true_iff in Hw. destruct Hw as [Hw1 Hw2].
    rewrite Hx by auto. simpl. apply IH. exact Hw2.
  - rewrite Nat.eqb_refl. simpl.
    destruct (wf_obj_inv _ Hw) as [Hnd Hwf].
    assert (Hall : forall k p, In (k, p) kvs -> alookup k kvs = Some p /\ py_eq p p = true).
    { intros k p Hin. split; [apply NoDup_alookup; auto|].
      rewrite Forall_forall in H, Hwf. apply (H (k, p) Hin). apply (Hwf (k, p) Hin). }
    clear H Hw Hnd Hwf.
    assert (Hgen : forall l, (forall k p, In (k, p) l -> alookup k kvs = Some p /\ py_eq p p = true) ->
       (fix go (x : list (str * json)) : bool :=
          match x with
          | [] => true
          | (k, p) :: x' => match alookup k kvs with Some q => py_eq p q && go x' | None => false end
          end) l = true).
    { induction l as [|[k p] l IHl]; intro Hl; auto.
      destruct (Hl k p (or_introl eq_refl)) as [Ha Hp]. rewrite Ha, Hp. simpl.
      apply IHl. intros k' p' Hin. apply Hl. right. exact Hin. }
    apply Hgen. exact Hall.
Qed.

Lemma slot_eq_refl : forall v, wf v = true -> slot_eq v v = true.
Proof.
  intros v Hw. unfold slot_eq.
  destruct (is_obj v) eqn:Eo; simpl; auto.
  destruct (is_float v) eqn:Ef; simpl; apply py_eq_refl; auto.
Qed.
