(* CorrC14.v — oracle of C14 (sync never overwrites conflicts unless told to; failed syncs roll
   documents back), evaluated on what the implementation did. *)
From SV Require Import Base Json Canon Sync SyncObs CorrC13.

Section O14.
  Variable frepr : fl -> str.

  (* some document pair differs, or the schema gate fires: another exception may legitimately come first *)
  Definition doc_differs (fn : str) (sd dd : dir) : bool :=
    negb (py_eq (JObj (read_doc fn sd)) (JObj (read_doc fn dd))).

  Definition other_trouble (i : sinput) : bool :=
    match o_docsync (i_opts i) with
    | DS_nosync | DS_copy => false
    | _ =>
        existsb (fun pr => doc_differs FN_DOC (snd (fst pr)) (odir (snd pr))) (pairs i)
        || (is_project_entry i && doc_differs FN_PDOC (p_top (i_src i)) (p_top (i_dst i)))
    end
    || schema_conflict (i_opts i) (i_src i) (i_dst i).

  Definition files_ok_with (deep : bool) (i : sinput) (o : sobs) : bool :=
    let all :=
         flat_map (fun pr => match snd pr, job_dir (fst (fst pr)) (p_ws (ob_dst o)) with
                             | Some dd, Some dd' => map (fun cf => (dd', cf)) (conflicts frepr deep i (snd (fst pr)) dd)
                             | Some dd, None => map (fun cf => ([], cf)) (conflicts frepr deep i (snd (fst pr)) dd)
                             | None, _ => []
                             end) (pairs i) in
       forallb (fun x => conflict_ok frepr i o (fst x) (snd x)) all
       && match all, o_strategy (i_opts i) with
          | _ :: _, None => other_trouble i || exn_opt_eqb (ob_exn o) (Some EFileSyncConflict)
          | _, _ => true
          end.

  (* the strategy has a say on differing files only: FileSyncConflict needs a conflict and no strategy, and
     whatever the strategy answers, files that exist only in the source are copied (C13's superset clause) *)
  Definition any_conflict (deep : bool) (i : sinput) : bool :=
    existsb (fun pr => match snd pr with
                       | Some dd => nonempty (conflicts_by_name frepr deep i (snd (fst pr)) dd)
                       | None => false
                       end) (pairs i).

  Definition files_ok (i : sinput) (o : sobs) : bool :=
    o_dry_run (i_opts i)
    || (files_ok_with (o_deep (i_opts i)) i o
        && (negb (exn_opt_eqb (ob_exn o) (Some EFileSyncConflict))
            || (is_none (o_strategy (i_opts i)) && any_conflict (o_deep (i_opts i)) i)
            || any_clash i)                       (* a file / directory clash conflicts whatever the strategy *)
        && (negb (is_none (ob_exn o)) || superset frepr i o)).

  (* ---------------------------------------------------------------- documents *)
  (* a key whose values differ (and are not both mappings) keeps its value unless the key strategy selects
     its full dotted name *)
  Fixpoint only_selected (ks : option (str -> option bool)) (prefix : str) (sv dv dv' : json) {struct sv} : bool :=
    match sv, dv with
    | JObj s, JObj d =>
        (fix go (l : kvs) : bool :=
           match l with
           | [] => true
           | (k, x) :: l' =>
               match alookup k d with
               | None => true
               | Some y =>
                   if py_eq y x then true           (* `dst[key] == value` *)
                   else if is_obj x && is_obj y
                        then only_selected ks (prefix ++ k ++ [DOT]) x y
                                           (match jget k dv' with Some y' => y' | None => JNull end)
                        else match jget k dv' with Some y' => json_eqb y y' | None => false end
                             || selected ks (prefix ++ k)
               end && go l'
           end) s
    | _, _ => true
    end.

  (* ByKey() without key strategy ends in DocumentSyncConflict: some key has differing values and the source
     value is not a mapping (a mapping source meeting a non-mapping destination is a TypeError, or silently
     nothing when the source mapping is empty) *)
  Fixpoint has_conflict (sv dv : json) {struct sv} : bool :=
    match sv, dv with
    | JObj s, JObj d =>
        (fix go (l : kvs) : bool :=
           match l with
           | [] => false
           | (k, x) :: l' =>
               match alookup k d with
               | None => false
               | Some y => if py_eq y x then false
                           else if is_obj x then (if is_obj y then has_conflict x y else false) else true
               end || go l'
           end) s
    | _, _ => false
    end.

  (* the key strategy callback raises on some key that ByKey asks it about (a differing key whose source value
     is not a mapping), full dotted name *)
  Fixpoint has_fault (ks : option (str -> option bool)) (prefix : str) (sv dv : json) {struct sv} : bool :=
    match sv, dv with
    | JObj s, JObj d =>
        (fix go (l : kvs) : bool :=
           match l with
           | [] => false
           | (k, x) :: l' =>
               match alookup k d with
               | None => false
               | Some y => if py_eq y x then false
                           else if is_obj x then (if is_obj y then has_fault ks (prefix ++ k ++ [DOT]) x y else false)
                           else ks_raises ks (prefix ++ k)
               end || go l'
           end) s
    | _, _ => false
    end.

  Definition doc_ok (i : sinput) (o : sobs) (fn : str) (sd dd dd' : dir) : bool :=
    let '(s, d, d') := docs_of fn sd dd dd' in
    match o_docsync (i_opts i) with
    | DS_bykey ks =>
        only_selected ks [] (JObj s) (JObj d) (JObj d')
        && (negb (exn_opt_eqb (ob_exn o) (Some EDocumentSyncConflict))
            || negb (has_conflict (JObj s) (JObj d))
            || node_eqb frepr (alookup fn dd) (alookup fn dd'))
        (* "failed syncs roll documents back": a key strategy callback that raises (KeyboardInterrupt, SystemExit;
           reported as EOther) aborts the call; the document whose synchronisation it interrupted is rolled back *)
        && (negb (exn_opt_eqb (ob_exn o) (Some EOther))
            || negb (has_fault ks [] (JObj s) (JObj d))
            || node_eqb frepr (alookup fn dd) (alookup fn dd'))
    | DS_update =>
        (* "overwrites": the destination value equals (Python ==) the source value afterwards; equal documents
           are not touched at all, so 1 is not replaced by 1.0 *)
        negb (is_none (ob_exn o))
        || forallb (fun kx => match alookup (fst kx) d' with Some x' => py_eq (snd kx) x' | None => false end) s
    | DS_nosync => node_eqb frepr (alookup fn dd) (alookup fn dd')
    | DS_copy => true
    end.

  Definition docs_ok (i : sinput) (o : sobs) : bool :=
    o_dry_run (i_opts i)
    || (forallb (fun pr =>
                   let '(did, sd, odd) := pr in
                   match odd, job_dir did (p_ws (ob_dst o)) with
                   | Some dd, Some dd' => doc_ok i o FN_DOC sd dd dd'
                   | Some _, None => false
                   | None, _ => true      (* cloned, or initialised by the call: nothing to conflict with *)
                   end) (pairs i)
        && (negb (is_project_entry i)
            || doc_ok i o FN_PDOC (p_top (i_src i)) (p_top (i_dst i)) (p_top (ob_dst o)))).

  (* DocumentSyncConflict is justified only by ByKey() without key strategy meeting a document pair (of a job
     being synchronised, or the project documents) that really has a conflict — not by conflicts of earlier
     calls or other jobs that happened to use the same ByKey instance *)
  Definition doc_conflict_justified (i : sinput) (o : sobs) : bool :=
    negb (exn_opt_eqb (ob_exn o) (Some EDocumentSyncConflict))
    || (match o_docsync (i_opts i) with DS_bykey None => true | _ => false end
        && (existsb (fun pr => has_conflict (JObj (read_doc FN_DOC (snd (fst pr)))) (JObj (read_doc FN_DOC (odir (snd pr)))))
                    (pairs i)
            || (is_project_entry i
                && has_conflict (JObj (read_doc FN_PDOC (p_top (i_src i)))) (JObj (read_doc FN_PDOC (p_top (i_dst i))))))).

  (* no backup file survives the call *)
  Definition no_backup_in (before after : dir) : bool :=
    forallb (fun e => negb (ends_tilde (fst e)) || negb (is_none (lookup_path (fst e) (Dir before)))) (flat after).
  Definition no_backup_left (i : sinput) (o : sobs) : bool :=
    no_backup_in (p_ws (i_dst i)) (p_ws (ob_dst o)) && no_backup_in (p_top (i_dst i)) (p_top (ob_dst o)).

  Definition holds_C14 (c : scase) : bool :=
    let i := c_in c in
    let o := c_obs c in
    files_ok i o && docs_ok i o && doc_conflict_justified i o && no_backup_left i o.
End O14.

(* no open known finding for C14 (truncated ByKey name, un-anchored patterns, DEFAULT_IGNORES are repaired) *)

Definition case_C14 := case_sync.
Definition mismatch_C14 (c : case_C14) : bool := mismatch_case c.
(* "leaving that file untouched": a file that is not overwritten keeps its permission bits too (SyncObs.perm_row) *)
Definition violation_C14 (c : case_C14) : bool := negb (holds_C14 (cs_frepr c) (cs_case c) && perm_frame_ok c).
Definition mismatches_C14 (cs : list case_C14) : list N := indices_where mismatch_C14 cs.
Definition violations_C14 (cs : list case_C14) : list N := indices_where violation_C14 cs.
