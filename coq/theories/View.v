(* View.v — executable model of signac/linked_view.py (create_linked_view and helpers).

   World: one directory tree (the "case directory" of the harness is the root "/"); it contains the
   project with the job directories and the arena in which view prefixes live.  Leaves are files
   (content hash only), symbolic links (raw target text) and directories.  All os-level operations
   the code performs are modelled with their POSIX behaviour as far as the code can observe it:
   path walks follow symbolic links in non-final components, interpret "", "." and "..",
   unlink/rmdir/mkdir/symlink act on the final component without following it, os.makedirs
   (exist_ok) and os.path.realpath (non strict) follow CPython 3.12.

   The job -> path map (signac.import_export._make_path_function, shared with export and owned by
   the Export model) is NOT recomputed here: it is an input of the model (field [pf] below), delivered
   by the harness which calls the real function.  Everything create_linked_view does with it
   (joining the leaf name, the dict of links, the empty-selection fallback, the separator guard, the
   leaf/node guard as written, _update_view, _analyze_view, _make_link) is modelled path by path.

   Iteration orders of Python sets (existing_paths, new) are not determined by the code; the model
   takes a tie-break list [hint] (the order of the attempted system calls observed by the harness)
   and the theorems hold for every hint. *)
From SV Require Import Base.

Definition path := list str.

Definition SEP : N := 47.
Definition s_dot : str := [46%N].
Definition s_dotdot : str := [46%N; 46%N].
Definition s_job : str := [106%N; 111%N; 98%N].

(* ------------------------------------------------------------------ strings and paths *)
Fixpoint split_on (c : N) (s acc : str) : list str :=
  match s with
  | [] => [rev acc]
  | x :: s' => if N.eqb x c then rev acc :: split_on c s' [] else split_on c s' (x :: acc)
  end.
Definition split_sep (s : str) : path := split_on SEP s [].

Fixpoint join_sep (cs : path) : str :=
  match cs with
  | [] => []
  | [c] => c
  | c :: cs' => c ++ SEP :: join_sep cs'
  end.

Definition has_sep (s : str) : bool := existsb (N.eqb SEP) s.

Definition is_nil {A} (l : list A) : bool := match l with [] => true | _ => false end.
Definition skipc (c : str) : bool := is_nil c || str_eqb c s_dot.
Definition updir (c : str) : bool := str_eqb c s_dotdot.

Definition path_eqb (a b : path) : bool := list_eqb str_eqb a b.
Fixpoint path_mem (p : path) (l : list path) : bool :=
  match l with [] => false | q :: l' => path_eqb p q || path_mem p l' end.

Fixpoint pnodup (l : list path) : list path :=
  match l with
  | [] => []
  | p :: l' => if path_mem p l' then pnodup l' else p :: pnodup l'
  end.
(* keeps LAST occurrences; only used on lists whose order is a free choice *)

Fixpoint split_last {A} (l : list A) : option (list A * A) :=
  match l with
  | [] => None
  | [x] => Some ([], x)
  | x :: l' => match split_last l' with Some (i, z) => Some (x :: i, z) | None => None end
  end.

Fixpoint strip_trailing_empty (cs : path) : path :=
  match cs with
  | [] => []
  | c :: cs' => match strip_trailing_empty cs' with
                | [] => if is_nil c then [] else [c]
                | r => c :: r
                end
  end.

(* The root of the model is the harness' case directory, not "/": climbing above it is recorded with
   a marker component (code point 0 cannot occur in a file name), below which nothing exists. *)
Definition s_up : str := [0%N].
Definition up (cur : path) : path :=
  match cur with
  | [] => [s_up]
  | _ => if str_eqb (last cur []) s_up then cur ++ [s_up] else removelast cur
  end.
Definition up_rev (acc : path) : path :=
  match acc with
  | [] => [s_up]
  | c :: a' => if str_eqb c s_up then s_up :: acc else a'
  end.

(* a raw path string is absolute iff it starts with the separator *)
Definition is_abs (cs : path) : bool :=
  match cs with c :: _ :: _ => is_nil c | _ => false end.
Definition absolutize (cwd cs : path) : path := if is_abs cs then cs else cwd ++ cs.

(* os.path.join(prefix, p): an absolute second argument discards the first *)
Definition pjoin (prefix p : path) : path := if is_abs p then p else prefix ++ p.

(* os.path.normpath on an absolute path, as a component list from the root *)
Fixpoint lexnorm_aux (acc cs : path) : path :=
  match cs with
  | [] => rev acc
  | c :: cs' =>
      if skipc c then lexnorm_aux acc cs'
      else if updir c then lexnorm_aux (up_rev acc) cs'
      else lexnorm_aux (c :: acc) cs'
  end.
Definition lexnorm (cs : path) : path := lexnorm_aux [] cs.

Fixpoint strip_common (a b : path) : path * path :=
  match a, b with
  | x :: a', y :: b' => if str_eqb x y then strip_common a' b' else (a, b)
  | _, _ => (a, b)
  end.

(* os.path.relpath(src, start) for an absolute normalised src and an absolutised start *)
Definition relpath (src start : path) : path :=
  let '(s, t) := strip_common src (lexnorm start) in
  match map (fun _ => s_dotdot) t ++ s with [] => [s_dot] | r => r end.

(* os.path.split(p)[0] / os.path.dirname(p) on components *)
Definition dirname (cs : path) : path :=
  match split_last cs with
  | Some (i, _) => match strip_trailing_empty i with
                   | [] => if is_abs cs then [[]; []] else []
                   | r => r
                   end
  | None => []
  end.

(* os.path.normpath on the components of a RELATIVE path: "" and "." vanish, ".." removes the previous
   component unless there is none (or it is itself ".."), where it stays; nothing left = "." *)
Fixpoint normrel_aux (acc cs : path) : path :=
  match cs with
  | [] => rev acc
  | c :: cs' =>
      if skipc c then normrel_aux acc cs'
      else if updir c then
        match acc with
        | [] => normrel_aux [c] cs'
        | a :: acc' => if updir a then normrel_aux (c :: acc) cs' else normrel_aux acc' cs'
        end
      else normrel_aux (c :: acc) cs'
  end.
Definition normrel (cs : path) : path :=
  match normrel_aux [] cs with [] => [s_dot] | r => r end.

(* os.path.normpath on a raw string (an absolute path keeps one leading separator; ".." at the root vanishes) *)
Fixpoint absnorm_aux (acc cs : path) : path :=
  match cs with
  | [] => rev acc
  | c :: cs' =>
      if skipc c then absnorm_aux acc cs'
      else if updir c then absnorm_aux (tl acc) cs'
      else absnorm_aux (c :: acc) cs'
  end.

Definition normpath_str (s : str) : str :=
  let cs := split_sep s in
  if is_abs cs || (match s with [x] => N.eqb x SEP | _ => false end)
  then SEP :: join_sep (absnorm_aux [] cs)
  else join_sep (normrel cs).

(* os.path.join(p, "job") on the raw string *)
Definition join_leaf (p : str) : str :=
  match split_last p with
  | None => s_job
  | Some (_, c) => if N.eqb c SEP then p ++ s_job else p ++ SEP :: s_job
  end.

(* ------------------------------------------------------------------ the tree *)
Inductive node :=
| File (h : N)
| Lnk (t : str)
| Dir (es : list (str * node)).

Fixpoint node_eqb (a b : node) : bool :=
  match a, b with
  | File x, File y => N.eqb x y
  | Lnk s, Lnk t => str_eqb s t
  | Dir es, Dir fs =>
      (fix go (es fs : list (str * node)) : bool :=
         match es, fs with
         | [], [] => true
         | (k, x) :: es', (l, y) :: fs' => str_eqb k l && node_eqb x y && go es' fs'
         | _, _ => false
         end) es fs
  | _, _ => false
  end.

(* entries are kept sorted by name, so that equal directories are equal terms *)
Fixpoint ains {A} (k : str) (v : A) (l : list (str * A)) : list (str * A) :=
  match l with
  | [] => [(k, v)]
  | (k', v') :: l' =>
      match str_cmp k k' with
      | Lt => (k, v) :: l
      | Eq => (k, v) :: l'
      | Gt => (k', v') :: ains k v l'
      end
  end.

Fixpoint get (w : node) (p : path) : option node :=
  match p with
  | [] => Some w
  | c :: p' => match w with
               | Dir es => match alookup c es with Some n => get n p' | None => None end
               | _ => None
               end
  end.

(* set ([Some n]) or delete ([None]) the entry at the physical path p; the parent must exist *)
Fixpoint upd (w : node) (p : path) (x : option node) : node :=
  match p with
  | [] => match x with Some n => n | None => w end
  | c :: p' =>
      match w with
      | Dir es =>
          match p' with
          | [] => Dir (match x with Some n => ains c n es | None => aremove c es end)
          | _ => match alookup c es with
                 | Some n => Dir (ains c (upd n p' x) es)
                 | None => w
                 end
          end
      | _ => w
      end
  end.

(* ------------------------------------------------------------------ path walks *)
Definition LF : nat := 40.   (* bound on nested symbolic link expansions (ELOOP) *)

(* directory reached from the directory [cur] (a physical path) along [cs], following links *)
Fixpoint walk (lf : nat) (w : node) : path -> path -> option path :=
  fix go (cur cs : path) {struct cs} : option path :=
    match cs with
    | [] => Some cur
    | c :: cs' =>
        if skipc c then go cur cs'
        else if updir c then go (up cur) cs'
        else match get w (cur ++ [c]) with
             | Some (Dir _) => go (cur ++ [c]) cs'
             | Some (Lnk t) =>
                 match lf with
                 | O => None
                 | S lf' =>
                     let tc := split_sep t in
                     match walk lf' w (if is_abs tc then [] else cur) tc with
                     | Some cur' => go cur' cs'
                     | None => None
                     end
                 end
             | _ => None
             end
    end.

(* node reached following every link (os.stat) *)
Fixpoint stat (lf : nat) (w : node) (cur cs : path) : option node :=
  match split_last cs with
  | None => get w cur
  | Some (ini, c) =>
      match walk lf w cur ini with
      | None => None
      | Some d =>
          if skipc c then get w d
          else if updir c then get w (up d)
          else match get w (d ++ [c]) with
               | Some (Lnk t) =>
                   match lf with
                   | O => None
                   | S lf' => let tc := split_sep t in stat lf' w (if is_abs tc then [] else d) tc
                   end
               | x => x
               end
      end
  end.

Definition isdir (w : node) (cwd cs : path) : bool :=
  match stat LF w [] (absolutize cwd cs) with Some (Dir _) => true | _ => false end.
Definition exists_ (w : node) (cwd cs : path) : bool :=
  match stat LF w [] (absolutize cwd cs) with Some _ => true | None => false end.

(* os.path.realpath, non strict: missing components and non-links are appended lexically *)
Fixpoint realpath_from (lf : nat) (w : node) : path -> path -> path :=
  fix go (cur cs : path) {struct cs} : path :=
    match cs with
    | [] => cur
    | c :: cs' =>
        if skipc c then go cur cs'
        else if updir c then go (up cur) cs'
        else match get w (cur ++ [c]) with
             | Some (Lnk t) =>
                 match lf with
                 | O => cur ++ c :: cs'
                 | S lf' =>
                     let tc := split_sep t in
                     go (realpath_from lf' w (if is_abs tc then [] else cur) tc) cs'
                 end
             | _ => go (cur ++ [c]) cs'
             end
    end.
Definition realpath (w : node) (cwd cs : path) : path := realpath_from LF w [] (absolutize cwd cs).

(* ------------------------------------------------------------------ system calls *)
Inductive oserr := EEXIST | EOS.

(* state: the tree and the number of successful mutating calls *)
Definition st := (node * N)%type.
Definition res := (st * option oserr)%type.
Definition ok (s : st) : res := (s, None).
Definition fail (s : st) (e : oserr) : res := (s, Some e).
Definition tick (w : node) (s : st) : st := (w, N.succ (snd s)).

(* resolve the parent directory of the final component (not followed) *)
Definition locate (w : node) (cwd cs : path) : option (path * str) :=
  match split_last (strip_trailing_empty (absolutize cwd cs)) with
  | None => None
  | Some (ini, c) => match walk LF w [] ini with Some d => Some (d, c) | None => None end
  end.

Definition create (n : node) (s : st) (cwd cs : path) : res :=
  let w := fst s in
  match locate w cwd cs with
  | None => fail s EOS
  | Some (d, c) =>
      if skipc c || updir c then fail s EEXIST
      else match get w (d ++ [c]) with
           | Some _ => fail s EEXIST
           | None => ok (tick (upd w (d ++ [c]) (Some n)) s)
           end
  end.
Definition mkdir := create (Dir []).
Definition symlink (t : str) := create (Lnk t).

Definition unlink (s : st) (cwd cs : path) : res :=
  let w := fst s in
  match locate w cwd cs with
  | None => fail s EOS
  | Some (d, c) =>
      if skipc c || updir c then fail s EOS
      else match get w (d ++ [c]) with
           | Some (Dir _) | None => fail s EOS
           | Some _ => ok (tick (upd w (d ++ [c]) None) s)
           end
  end.

Definition rmdir (s : st) (cwd cs : path) : res :=
  let w := fst s in
  match locate w cwd cs with
  | None => fail s EOS
  | Some (d, c) =>
      if skipc c || updir c then fail s EOS
      else match get w (d ++ [c]) with
           | Some (Dir []) => ok (tick (upd w (d ++ [c]) None) s)
           | _ => fail s EOS
           end
  end.

(* os.makedirs(name, exist_ok=True), CPython 3.12 *)
Definition makedirs_final (s : st) (cwd name : path) : res :=
  match mkdir s cwd name with
  | (s', Some e) => if isdir (fst s') cwd name then ok s' else fail s' e
  | r => r
  end.

Fixpoint makedirs (fuel : nat) (s : st) (cwd name : path) : res :=
  match fuel with
  | O => makedirs_final s cwd name
  | S fuel' =>
      match split_last (strip_trailing_empty name) with
      | None => makedirs_final s cwd name
      | Some (head0, tail) =>
          let head := strip_trailing_empty head0 in
          if negb (is_nil head) && negb (is_nil tail) && negb (exists_ (fst s) cwd head) then
            match makedirs fuel' s cwd head with
            | (s', Some EOS) => fail s' EOS
            | (s', _) => if str_eqb tail s_dot then ok s' else makedirs_final s' cwd name
            end
          else makedirs_final s cwd name
      end
  end.

(* signac._utility._mkdir_p *)
Definition mkdir_p (s : st) (cwd name : path) : res :=
  if isdir (fst s) cwd name then ok s else makedirs (length name) s cwd name.

(* linked_view._make_link(src, dst) *)
Definition make_link (s : st) (cwd : path) (src : str) (dst : path) : res :=
  match mkdir_p s cwd (dirname dst) with
  | (s', Some e) => fail s' e
  | (s', None) =>
      match symlink src s' cwd dst with
      | (s2, Some EEXIST) =>
          if path_eqb (realpath (fst s2) cwd (split_sep src)) (realpath (fst s2) cwd dst)
          then ok s2 else fail s2 EEXIST
      | r => r
      end
  end.

(* ------------------------------------------------------------------ analysis of the existing view *)
(* os.walk(root) without following links: relative paths of the directories holding an entry "job" *)
Fixpoint find_links_in (n : node) (rel : path) : list path :=
  match n with
  | Dir es =>
      (if existsb (fun e => str_eqb (fst e) s_job) es then [rel] else [])
      ++ (fix go (es : list (str * node)) : list path :=
            match es with
            | [] => []
            | (c, x) :: es' => find_links_in x (rel ++ [c]) ++ go es'
            end) es
  | _ => []
  end.

(* _find_all_links(prefix): os.path.relpath(dirpath, root) is "." for the root itself *)
Definition find_all_links (w : node) (cwd prefix : path) : list path :=
  match walk LF w [] (absolutize cwd prefix) with
  | Some d => match get w d with
              | Some n => map (fun r => match r with [] => [s_dot] | _ => r end) (find_links_in n [])
              | None => []
              end
  | None => []
  end.

Inductive trie := Tr (colored : bool) (ch : list (str * trie)).

(* dict.setdefault(name, _Node(name)) followed by an update of that child *)
Fixpoint aupd {A} (k : str) (f : A -> A) (d : A) (l : list (str * A)) : list (str * A) :=
  match l with
  | [] => [(k, f d)]
  | (k', v) :: l' => if str_eqb k k' then (k', f v) :: l' else (k', v) :: aupd k f d l'
  end.

Definition t_leaf : trie := Tr false [].

Fixpoint t_insert (p : path) (t : trie) : trie :=
  match p with
  | [] => t
  | c :: p' => match t with Tr v ch => Tr v (aupd c (t_insert p') t_leaf ch) end
  end.

Definition build_tree (paths : list path) : trie := fold_left (fun t p => t_insert p t) paths t_leaf.

Fixpoint color_path (p : path) (t : trie) : trie :=
  match t with
  | Tr _ ch => match p with
               | [] => Tr true ch
               | c :: p' => Tr true (aupd c (color_path p') t_leaf ch)
               end
  end.

Fixpoint find_dead_branches (t : trie) (br : path) : list path :=
  match t with
  | Tr v ch =>
      (fix go (ch : list (str * trie)) : list path :=
         match ch with
         | [] => []
         | (c, t') :: ch' => find_dead_branches t' (br ++ [c]) ++ go ch'
         end) ch
      ++ (if v then [] else [br])
  end.

(* tie-break: elements of l in the order of hint first, the others after *)
Definition order_by (hint l : list path) : list path :=
  filter (fun p => path_mem p l) (rev (pnodup (rev hint))) ++ filter (fun p => negb (path_mem p hint)) l.

(* stable insertion sort by decreasing length *)
Fixpoint ins_len (p : path) (l : list path) : list path :=
  match l with
  | [] => [p]
  | q :: l' => if Nat.leb (length q) (length p) then p :: l else q :: ins_len p l'
  end.
Definition sort_len_desc (l : list path) : list path := fold_right ins_len [] l.

Fixpoint remove_first (p : path) (l : list path) : list path :=
  match l with
  | [] => []
  | q :: l' => if path_eqb p q then l' else q :: remove_first p l'
  end.

Definition links := list (str * path).     (* raw key string -> absolute job directory *)
Definition keys_of (lk : links) : list path := map (fun e => split_sep (fst e)) lk.

Record analysis := { a_obsolete : list path; a_update : list path; a_new : list path }.

Definition analyze_view (hint : list path) (w : node) (cwd prefix : path) (lk : links) : analysis :=
  let existing := rev (pnodup (rev (map (fun d => normrel (d ++ [s_job])) (find_all_links w cwd prefix)))) in
  let ks := keys_of lk in
  let tree := fold_left (fun t k => color_path k t) ks (build_tree existing) in
  let dead := filter (fun b => negb (is_nil b)) (find_dead_branches tree []) in
  let obsolete := remove_first [s_dot] (sort_len_desc (order_by hint dead)) in
  let keep := filter (fun e => path_mem e ks) existing in
  let new := filter (fun k => negb (path_mem k keep)) ks in
  let upd := filter (fun p => match alookup (join_sep p) lk with
                              | Some tgt => negb (path_eqb (realpath w cwd (pjoin prefix p)) tgt)
                              | None => false
                              end) keep in
  {| a_obsolete := obsolete; a_update := order_by hint upd; a_new := order_by hint new |}.

(* ------------------------------------------------------------------ _update_view *)
Fixpoint remove_obsolete (s : st) (cwd prefix : path) (l : list path) : res :=
  match l with
  | [] => ok s
  | p :: l' =>
      match unlink s cwd (pjoin prefix p) with
      | (s', None) => remove_obsolete s' cwd prefix l'
      | (s', Some _) =>
          match rmdir s' cwd (pjoin prefix p) with
          | (s2, None) => remove_obsolete s2 cwd prefix l'
          | r => r
          end
      end
  end.

Fixpoint unlink_all (s : st) (cwd prefix : path) (l : list path) : res :=
  match l with
  | [] => ok s
  | p :: l' => match unlink s cwd (pjoin prefix p) with
               | (s', None) => unlink_all s' cwd prefix l'
               | r => r
               end
  end.

Definition link_target (cwd prefix p tgt : path) : str :=
  join_sep (relpath tgt (absolutize cwd (dirname (pjoin prefix p)))).

Fixpoint link_all (s : st) (cwd prefix : path) (lk : links) (l : list path) : res :=
  match l with
  | [] => ok s
  | p :: l' =>
      match alookup (join_sep p) lk with
      | None => fail s EOS     (* KeyError cannot happen: p is a key of lk *)
      | Some tgt =>
          match make_link s cwd (link_target cwd prefix p tgt) (pjoin prefix p) with
          | (s', None) => link_all s' cwd prefix lk l'
          | r => r
          end
      end
  end.

Definition update_view (hint : list path) (s : st) (cwd prefix : path) (lk : links) : res :=
  let a := analyze_view hint (fst s) cwd prefix lk in
  match a_obsolete a, a_update a, a_new a with
  | [], [], [] => ok s
  | _, _, _ =>
      match remove_obsolete s cwd prefix (a_obsolete a) with
      | (s1, Some e) => fail s1 e
      | (s1, None) =>
          match unlink_all s1 cwd prefix (a_update a) with
          | (s2, Some e) => fail s2 e
          | (s2, None) => link_all s2 cwd prefix lk (a_new a ++ a_update a)
          end
      end
  end.

(* ------------------------------------------------------------------ create_linked_view *)
Record job := {
  j_dir : path;                 (* job.path, absolute, as components from the root *)
  j_items : list str;           (* dotted keys and the spelling (strings as they are, other values through
                                   str()) of every leaf value, lists included (9779bb0, f6f949e) *)
  j_pf : result str             (* path_function(job): the shared path function, an oracle *)
}.

Record call := {
  c_cwd : path;
  c_prefix : path;              (* split raw prefix string *)
  c_jobs : list job;            (* the selected jobs in iteration order *)
  c_pfmake : option exn;        (* _make_path_function(jobs, path) itself raised *)
  c_all : list path;            (* job.path of project.find_jobs(); unused since cfcb328 removed the fallback *)
}.

(* import_export._check_directory_structure_validity, as written *)
Fixpoint proper_prefixes (tokens : path) (acc : path) : list path :=
  match tokens with
  | [] | [_] => []
  | c :: ts => (acc ++ [c]) :: proper_prefixes ts (acc ++ [c])
  end.

(* fc0e7cc: all nodes are collected first, then every leaf is tested *)
Definition all_nodes (ks : list path) : list path := flat_map (fun k => proper_prefixes k []) ks.
Definition check_structure (ks : list path) : bool :=
  forallb (fun k => negb (path_mem k (all_nodes ks))) ks.

Definition starts_with (p s : str) : bool := str_prefix p s.
Definition leaves_view (k : str) : bool :=
  (match k with x :: _ => N.eqb x SEP | [] => false end)          (* os.path.isabs *)
  || str_eqb k s_dotdot || starts_with (s_dotdot ++ [SEP]) k.

Fixpoint build_links (js : list job) (acc : links) : result links :=
  match js with
  | [] => Ok acc
  | j :: js' => match j_pf j with
                | Err e => Err e
                | Ok p =>
                    let k := normpath_str (join_leaf p) in
                    if (match alookup k acc with Some _ => true | None => false end) || leaves_view k
                    then Err ERuntimeError
                    else build_links js' (aset k (j_dir j) acc)
                end
  end.

Definition s_dotjob : str := s_dot ++ SEP :: s_job.

Definition make_links (c : call) : result links :=
  if existsb (fun j => existsb has_sep (j_items j)) (c_jobs c) then Err ERuntimeError
  else match c_pfmake c with
       | Some e => Err e
       | None =>
           build_links (c_jobs c) []      (* cfcb328: no "./job" fallback for an empty selection *)
       end.

(* "linked view targets are resolved from the physical location of the link": _update_view receives
   os.path.realpath(prefix) and os.path.realpath of every job path (the returned mapping keeps the paths as spelled).
   Both are absolute; as raw paths they start with the empty component. *)
Definition physical (w : node) (cwd cs : path) : path := ([] : str) :: realpath w cwd cs.
Definition physical_links (w : node) (lk : links) : links :=
  map (fun e => (fst e, realpath w [] (([] : str) :: snd e))) lk.

Definition create_linked_view (hint : list path) (s : st) (c : call) : result links * st :=
  match make_links c with
  | Err e => (Err e, s)
  | Ok lk =>
      if negb (check_structure (keys_of lk)) then (Err ERuntimeError, s)
      else match update_view hint s (c_cwd c) (physical (fst s) (c_cwd c) (c_prefix c)) (physical_links (fst s) lk) with
           | (s', None) => (Ok lk, s')
           | (s', Some _) => (Err EOSError, s')
           end
  end.

(* the view a from-scratch build produces: the same call on a tree without the prefix *)
Definition from_scratch (hint : list path) (w : node) (c : call) : result links * st :=
  let p := lexnorm (absolutize (c_cwd c) (c_prefix c)) in
  create_linked_view hint (upd w p None, 0%N) c.
