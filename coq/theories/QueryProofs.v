(* QueryProofs.v — find_result (index + set algebra + early exit) equals per-job evaluation. *)
From SV Require Import Base Json PyVal Query.

(* ---------- id-set algebra ---------- *)
Lemma mem_In : forall x l, mem x l = true <-> In x l.
Proof. intros. apply str_mem_In. Qed.

Lemma mem_app : forall x a b, mem x (a ++ b) = mem x a || mem x b.
Proof.
  induction a as [|y a IH]; simpl; intro b; auto.
  rewrite IH. rewrite orb_assoc. reflexivity.
Qed.

Lemma mem_filter : forall x p l, (forall y, str_eqb x y = true -> p y = p x) ->
  mem x (filter p l) = mem x l && p x.
Proof.
  intros x p l Hp. induction l as [|y l IH]; simpl; auto.
  destruct (p y) eqn:Epy; simpl.
  - rewrite IH. destruct (str_eqb x y) eqn:E; simpl; auto.
    rewrite <- (Hp y E), Epy. reflexivity.
  - rewrite IH. destruct (str_eqb x y) eqn:E; simpl; auto.
    rewrite <- (Hp y E), Epy. rewrite andb_false_r. reflexivity.
Qed.

Lemma mem_congr : forall x y l, str_eqb x y = true -> mem y l = mem x l.
Proof. intros x y l E. apply str_eqb_eq in E. subst. reflexivity. Qed.

Lemma mem_inter : forall x a b, mem x (inter a b) = mem x a && mem x b.
Proof.
  intros. unfold inter. apply mem_filter. intros y E. apply mem_congr. exact E.
Qed.

Lemma mem_diff : forall x a b, mem x (diff a b) = mem x a && negb (mem x b).
Proof.
  intros. unfold diff. apply mem_filter. intros y E. f_equal. apply mem_congr. exact E.
Qed.

Lemma mem_union : forall x a b, mem x (union a b) = mem x a || mem x b.
Proof.
  intros. unfold union. rewrite mem_app, mem_filter.
  - destruct (mem x a), (mem x b); reflexivity.
  - intros y E. f_equal. apply mem_congr. exact E.
Qed.

Lemma mem_all_ids : forall (c : corpus) i d, In (i, d) c -> mem i (all_ids c) = true.
Proof.
  intros c i d H. apply mem_In. unfold all_ids. change i with (fst (i, d)). apply in_map. exact H.
Qed.

Definition memo (res : option (list id)) (i : id) : bool :=
  match res with None => true | Some r => mem i r end.

Lemma memo_reduce : forall res m i, memo (reduce res m) i = memo res i && mem i m.
Proof. intros [r|] m i; simpl; [apply mem_inter|reflexivity]. Qed.

Lemma is_empty_memo : forall res i, is_empty res = true -> res <> None -> memo res i = false.
Proof. intros [[|x r]|] i H Hn; simpl in *; try discriminate; auto. contradiction. Qed.

Lemma reduce_not_None : forall res m, reduce res m <> None.
Proof. intros [r|] m; discriminate. Qed.

Section Exact.
  Variable regex_search : str -> str -> bool.
  Variable isclose : (Z * Z) -> (Z * Z) -> (Z * Z) -> (Z * Z) -> bool.

  Notation find_expression := (find_expression regex_search isclose).
  Notation match_expression := (match_expression regex_search isclose).
  Notation find_result := (find_result regex_search isclose).
  Notation matches := (matches regex_search isclose).
  Notation exprs_loop := (exprs_loop regex_search isclose).
  Notation match_exprs := (match_exprs regex_search isclose).

  (* per-expression correctness of the index, for a fixed corpus, on the leaf expressions satisfying P *)
  Variable P : str -> json -> Prop.

  Definition ExprOK (c : corpus) : Prop :=
    forall key value R, P key value -> find_expression c key value = Ok R ->
      forall i d, In (i, d) c -> match_expression d key value = Ok (mem i R).

  Variable c : corpus.
  Hypothesis HE : ExprOK c.

  Definition LeavesOK (es : list (str * json)) : Prop := Forall (fun kv => P (fst kv) (snd kv)) es.

  (* every leaf expression reachable in the filter satisfies P *)
  Fixpoint AllLeaves (fuel : nat) (expr : json) : Prop :=
    match fuel with
    | O => True
    | Datatypes.S fuel' =>
        match expr with
        | JObj kvs =>
            LeavesOK (flatten fuel None (JObj (strip_logical kvs))) /\
            (forall ne, not_null (alookup s_not kvs) = Some ne -> AllLeaves fuel' ne) /\
            (forall ae items, not_null (alookup s_and kvs) = Some ae -> check_logical_arg ae = Ok items ->
                              Forall (AllLeaves fuel') items) /\
            (forall oe items, not_null (alookup s_or kvs) = Some oe -> check_logical_arg oe = Ok items ->
                              Forall (AllLeaves fuel') items)
        | _ => True
        end
    end.

  Lemma exprs_loop_shrinks : forall es res res' exit i,
    exprs_loop c es res = Ok (res', exit) -> memo res i = false -> exit = false -> memo res' i = false.
  Proof.
    induction es as [|[k v] es IH]; intros res res' exit i H Hr Hex; simpl in H.
    - inversion H; subst. exact Hr.
    - destruct (find_expression c k v) as [m|] eqn:Ef; simpl in H; [|discriminate].
      destruct (is_empty (reduce res m)) eqn:Ee.
      + inversion H; subst. discriminate.
      + eapply IH; eauto. rewrite memo_reduce, Hr. reflexivity.
  Qed.
  Lemma exprs_loop_ok : forall es res res' exit,
    LeavesOK es ->
    exprs_loop c es res = Ok (res', exit) ->
    forall i d, In (i, d) c -> memo res i = true ->
      exists b, match_exprs true d es = Ok b /\ (if exit then b = false else memo res' i = b).
  Proof.
    induction es as [|[k v] es IH]; intros res res' exit HL H i d Hin Hm; simpl in H.
    - inversion H; subst. exists true. split; [reflexivity|]. exact Hm.
    - inversion HL as [|? ? HP HL']; subst. simpl in HP.
      destruct (find_expression c k v) as [m|e] eqn:Ef; simpl in H; [|discriminate].
      pose proof (HE _ _ _ HP Ef _ _ Hin) as Hme.
      simpl. rewrite Hme. simpl.
      destruct (is_empty (reduce res m)) eqn:Eemp.
      + inversion H; subst.
        assert (Hf : memo (reduce res m) i = false) by (apply is_empty_memo; auto using reduce_not_None).
        rewrite memo_reduce, Hm in Hf. simpl in Hf. rewrite Hf. simpl.
        exists false. split; reflexivity.
      + destruct (mem i m) eqn:Emi; simpl.
        * apply (IH _ _ _ HL' H _ _ Hin). rewrite memo_reduce, Hm, Emi. reflexivity.
        * exists false. split; [reflexivity|].
          destruct exit; [reflexivity|].
          eapply exprs_loop_shrinks; eauto. rewrite memo_reduce, Emi. apply andb_false_r.
  Qed.


  (* ----- generic $and / $or loops ----- *)
  Section Loops.
    Variable rec_idx : json -> result (list id).
    Variable rec_ref : json -> result bool.
    Variable i : id.
    Variable Q : json -> Prop.
    Hypothesis Hrec : forall it m, Q it -> rec_idx it = Ok m -> rec_ref it = Ok (mem i m).

    Lemma and_loop_shrinks : forall items res res' exit,
      and_loop_idx rec_idx items res = Ok (res', exit) -> memo res i = false -> exit = false -> memo res' i = false.
    Proof.
      induction items as [|it items IH]; intros res res' exit H Hr Hex; simpl in H.
      - inversion H; subst. exact Hr.
      - destruct (rec_idx it) as [m|] eqn:Ef; simpl in H; [|discriminate].
        destruct (is_empty (reduce res m)) eqn:Ee.
        + inversion H; subst. discriminate.
        + eapply IH; eauto. rewrite memo_reduce, Hr. reflexivity.
    Qed.

    Lemma and_loop_ok : forall items res res' exit,
      Forall Q items ->
      and_loop_idx rec_idx items res = Ok (res', exit) -> memo res i = true ->
      exists b, and_loop_ref rec_ref true items = Ok b /\ (if exit then b = false else memo res' i = b).
    Proof.
      induction items as [|it items IH]; intros res res' exit HQ H Hm; simpl in H.
      - inversion H; subst. exists true. split; [reflexivity|exact Hm].
      - inversion HQ as [|? ? HQ1 HQ2]; subst.
        destruct (rec_idx it) as [m|] eqn:Ef; simpl in H; [|discriminate].
        simpl. rewrite (Hrec _ _ HQ1 Ef). simpl.
        destruct (is_empty (reduce res m)) eqn:Eemp.
        + inversion H; subst.
          assert (Hf : memo (reduce res m) i = false) by (apply is_empty_memo; auto using reduce_not_None).
          rewrite memo_reduce, Hm in Hf. simpl in Hf. rewrite Hf. simpl.
          exists false. split; reflexivity.
        + destruct (mem i m) eqn:Emi; simpl.
          * apply (IH _ _ _ HQ2 H). rewrite memo_reduce, Hm, Emi. reflexivity.
          * exists false. split; [reflexivity|].
            destruct exit; [reflexivity|].
            eapply and_loop_shrinks; eauto. rewrite memo_reduce, Emi. apply andb_false_r.
    Qed.

    Lemma or_loop_ok : forall items acc om,
      Forall Q items ->
      or_loop_idx rec_idx items acc = Ok om ->
      or_loop_ref rec_ref items (mem i acc) = Ok (mem i om).
    Proof.
      induction items as [|it items IH]; intros acc om HQ H; simpl in H.
      - inversion H; subst. reflexivity.
      - inversion HQ as [|? ? HQ1 HQ2]; subst.
        destruct (rec_idx it) as [m|] eqn:Ef; simpl in H; [|discriminate].
        simpl. rewrite (Hrec _ _ HQ1 Ef). simpl.
        rewrite <- mem_union. apply IH; auto.
    Qed.
  End Loops.

  (* ----- stages and continuations ----- *)
  Section Stages.
    Variable i : id.

    Definition StageOK (si : option (list id) -> result (option (list id) * bool)) (sr : result bool) : Prop :=
      forall res res' exit, si res = Ok (res', exit) ->
        (memo res i = true -> exists b, sr = Ok b /\ (if exit then b = false else memo res' i = b)) /\
        (memo res i = false -> exit = false -> memo res' i = false).

    Definition ContOK (ki : option (list id) -> result (list id)) (kr : result bool) : Prop :=
      forall res R, ki res = Ok R ->
        (memo res i = true -> kr = Ok (mem i R)) /\ (memo res i = false -> mem i R = false).

    Lemma stage_cont : forall si sr ki kr,
      StageOK si sr -> ContOK ki kr ->
      ContOK (fun res => then_stage (si res) ki) (then_ref true sr kr).
    Proof.
      intros si sr ki kr Hs Hk res R H. unfold then_stage in H.
      destruct (si res) as [[res' exit]|] eqn:Es; simpl in H; [|discriminate].
      destruct (Hs _ _ _ Es) as [Hin Hout].
      split; intro Hm.
      - destruct (Hin Hm) as [b [Hb Hx]]. unfold then_ref. rewrite Hb. simpl.
        destruct exit.
        + subst b. inversion H; subst. reflexivity.
        + destruct (Hk _ _ H) as [Hk1 Hk2]. destruct b; simpl.
          * apply Hk1. exact Hx.
          * rewrite (Hk2 Hx). reflexivity.
      - destruct exit.
        + inversion H; subst. reflexivity.
        + destruct (Hk _ _ H) as [_ Hk2]. apply Hk2. apply Hout; auto.
    Qed.
  End Stages.

  (* ----- the main theorem: index search = per-job short-circuit evaluation ----- *)
  Theorem find_result_exact : forall fuel expr R,
    AllLeaves fuel expr ->
    find_result fuel c expr = Ok R ->
    forall i d, In (i, d) c -> matches true fuel d expr = Ok (mem i R).
  Proof.
    induction fuel as [|fuel IH]; intros expr R HA H i d Hin; [discriminate|].
    destruct expr as [| | | | | |kvs]; try discriminate.
    destruct kvs as [|kv0 kvs0].
    { simpl in H. inversion H; subst. simpl. rewrite (mem_all_ids _ _ _ Hin). reflexivity. }
    assert (Hrec : forall it m, AllLeaves fuel it -> find_result fuel c it = Ok m -> matches true fuel d it = Ok (mem i m)).
    { intros it m HAit Hm. apply (IH _ _ HAit Hm _ _ Hin). }
    cbn [Query.find_result] in H. cbn [Query.matches]. cbn [AllLeaves] in HA.
    set (kvs := kv0 :: kvs0) in *.
    destruct HA as [HAes [HAnot [HAand HAor]]].
    set (es := flatten (Datatypes.S fuel) None (JObj (strip_logical kvs))) in *.
    set (not_e := not_null (alookup s_not kvs)) in *.
    set (and_e := not_null (alookup s_and kvs)) in *.
    set (or_e := not_null (alookup s_or kvs)) in *.
    set (nothing := is_nil es && is_none not_e && is_none and_e && is_none or_e) in *.
    (* final continuation *)
    assert (Hfinal : ContOK i (or_final_idx (find_result fuel c) or_e nothing)
                              (or_final_ref (matches true fuel d) or_e nothing)).
    { intros res R' HR. unfold or_final_idx in HR. unfold or_final_ref.
      destruct or_e as [oe|].
      - destruct (check_logical_arg oe) as [items|] eqn:Ec; simpl in HR; [|discriminate].
        destruct (or_loop_idx (find_result fuel c) items []) as [om|] eqn:Eo; simpl in HR; [|discriminate].
        pose proof (or_loop_ok _ _ i _ Hrec _ _ _ (HAor _ _ eq_refl Ec) Eo) as Hor. simpl in Hor.
        destruct nothing; [discriminate|]. simpl.
        destruct (reduce res om) as [r|] eqn:Er; [|discriminate]. inversion HR; subst.
        assert (Hmr : mem i R' = memo res i && mem i om).
        { rewrite <- memo_reduce, Er. reflexivity. }
        split; intro Hm; rewrite Hmr, Hm; simpl; [|reflexivity].
        rewrite Hor. reflexivity.
      - simpl in HR. destruct nothing; [discriminate|]. simpl.
        destruct res as [r|]; [|discriminate]. inversion HR; subst. simpl.
        split; intro Hm; [rewrite Hm; reflexivity|exact Hm]. }
    (* $and stage *)
    assert (Hand : StageOK i (and_stage_idx (find_result fuel c) and_e)
                             (and_stage_ref (matches true fuel d) true and_e)).
    { intros res res' exit Hs. unfold and_stage_idx in Hs. unfold and_stage_ref.
      destruct and_e as [ae|].
      - destruct (check_logical_arg ae) as [items|] eqn:Ec; simpl in Hs; [|discriminate]. simpl.
        split.
        + intro Hm. eapply and_loop_ok; eauto; try apply (HAand _ _ eq_refl Ec).
        + intros Hm Hex. eapply and_loop_shrinks; eauto.
      - inversion Hs; subst. split; [intro Hm; exists true; auto|auto]. }
    (* $not stage *)
    assert (Hnot : StageOK i (not_stage_idx (find_result fuel c) c not_e)
                             (not_stage_ref (matches true fuel d) not_e)).
    { intros res res' exit Hs. unfold not_stage_idx in Hs. unfold not_stage_ref.
      destruct not_e as [ne|].
      - destruct (find_result fuel c ne) as [nm|] eqn:Ef; simpl in Hs; [|discriminate].
        inversion Hs; subst. rewrite (Hrec _ _ (HAnot _ eq_refl) Ef). simpl.
        split.
        + intro Hm. exists (negb (mem i nm)). split; [reflexivity|].
          destruct (is_empty (reduce res (diff (all_ids c) nm))) eqn:Ee.
          * pose proof (is_empty_memo _ i Ee (reduce_not_None _ _)) as Hf.
            rewrite memo_reduce, Hm, mem_diff, (mem_all_ids _ _ _ Hin) in Hf. simpl in Hf. exact Hf.
          * rewrite memo_reduce, Hm, mem_diff, (mem_all_ids _ _ _ Hin). reflexivity.
        + intros Hm _. rewrite memo_reduce, Hm. reflexivity.
      - inversion Hs; subst. split; [intro Hm; exists true; auto|auto]. }
    (* plain expressions stage *)
    assert (Hexp : StageOK i (exprs_loop c es) (match_exprs true d es)).
    { intros res res' exit Hs. split.
      - intro Hm. eapply exprs_loop_ok; eauto.
      - intros Hm Hex. eapply exprs_loop_shrinks; eauto. }
    pose proof (stage_cont i _ _ _ _ Hand Hfinal) as H3.
    pose proof (stage_cont i _ _ _ _ Hnot H3) as H2.
    pose proof (stage_cont i _ _ _ _ Hexp H2) as H1.
    destruct (H1 None R H) as [Hgoal _]. apply Hgoal. reflexivity.
  Qed.
End Exact.

(* ================= per-expression correctness of the typed index ================= *)

Definition kvals (c : corpus) (key : str) : list (id * json) :=
  flat_map (fun jd => match lookup_path (snd jd) (split_on dot key) with
                      | Some v => [(fst jd, as_key v)]
                      | None => []
                      end) c.

Lemma build_index_kvals_gen : forall c key idx0,
  fold_left (fun idx jd =>
               match lookup_path (snd jd) (split_on dot key) with
               | Some v => index_add idx (as_key v) (fst jd)
               | None => idx
               end) c idx0
  = fold_left (fun idx iv => index_add idx (snd iv) (fst iv)) (kvals c key) idx0.
Proof.
  induction c as [|[i d] c IH]; intros key idx0; simpl; auto.
  unfold kvals in *. simpl.
  destruct (lookup_path d (split_on dot key)) as [v|]; simpl; apply IH.
Qed.

Lemma build_index_kvals : forall c key,
  build_index c key = fold_left (fun idx iv => index_add idx (snd iv) (fst iv)) (kvals c key) [].
Proof. intros. unfold build_index. apply build_index_kvals_gen. Qed.

Lemma kvals_own : forall c key i k, NoDup (map fst c) -> In (i, k) (kvals c key) ->
  forall d, In (i, d) c -> exists v, own_value d key = Some v /\ k = as_key v.
Proof.
  induction c as [|[i0 d0] c IH]; intros key i k Hnd Hin d Hd; [inversion Hd|].
  simpl in Hnd. inversion Hnd as [|? ? Hnotin Hnd']; subst.
  unfold kvals in Hin. simpl in Hin. apply in_app_or in Hin.
  destruct Hd as [Hd|Hd].
  - inversion Hd; subst. destruct Hin as [Hin|Hin].
    + unfold own_value. destruct (lookup_path d (split_on dot key)) as [v|]; simpl in Hin; [|tauto].
      destruct Hin as [Hin|[]]. inversion Hin; subst. eauto.
    + exfalso. apply Hnotin. fold (kvals c key) in Hin.
      clear - Hin. unfold kvals in Hin. apply in_flat_map in Hin. destruct Hin as [[i' d'] [H1 H2]].
      simpl in H2. destruct (lookup_path d' (split_on dot key)); simpl in H2; [|tauto].
      destruct H2 as [H2|[]]. inversion H2; subst. change i with (fst (i, d')). apply in_map. exact H1.
  - destruct Hin as [Hin|Hin].
    + exfalso. destruct (lookup_path d0 (split_on dot key)); simpl in Hin; [|tauto].
      destruct Hin as [Hin|[]]. inversion Hin; subst. apply Hnotin.
      change i with (fst (i, d)). apply in_map. exact Hd.
    + eapply IH; eauto.
Qed.

Lemma own_kvals : forall c key i d v, In (i, d) c -> own_value d key = Some v -> In (i, as_key v) (kvals c key).
Proof.
  intros c key i d v Hin Hv. unfold kvals. apply in_flat_map. exists (i, d). split; auto.
  simpl. unfold own_value in Hv. rewrite Hv. left. reflexivity.
Qed.

(* no two different values of the list share a dict slot *)
Definition SlotInj (vals : list json) : Prop :=
  forall a b, In a vals -> In b vals -> slot_eq a b = true -> a = b.

Definition IdxInv (idx : index) (L : list (id * json)) : Prop :=
  (forall k ids j, In (k, ids) idx -> In j ids -> In (j, k) L) /\
  (forall j v, In (j, v) L -> exists ids, In (v, ids) idx /\ In j ids) /\
  (forall k ids, In (k, ids) idx -> In k (map snd L)).

Lemma index_add_spec : forall idx v i,
  (forall k ids, In (k, ids) idx -> slot_eq k v = true -> k = v) ->
  (forall k ids j, In (k, ids) (index_add idx v i) -> In j ids ->
      (In (k, filter (fun _ => true) ids) (index_add idx v i)) /\
      ((exists ids0, In (k, ids0) idx /\ In j ids0) \/ (j = i /\ k = v))) /\
  (exists ids, In (v, ids) (index_add idx v i) /\ In i ids) /\
  (forall k ids0 j, In (k, ids0) idx -> In j ids0 -> exists ids, In (k, ids) (index_add idx v i) /\ In j ids) /\
  (forall k ids, In (k, ids) (index_add idx v i) -> k = v \/ exists ids0, In (k, ids0) idx).
Proof.
  induction idx as [|[k0 ids0] idx IH]; intros v i Hinj; simpl.
  - repeat split.
    + destruct H as [H|[]]. inversion H; subst. simpl. left. destruct H0 as [->|[]]. reflexivity.
    + destruct H as [H|[]]. inversion H; subst. destruct H0 as [->|[]]. right. auto.
    + exists [i]. split; simpl; auto.
    + intros k ids1 j [].
    + intros k ids [H|[]]. inversion H; subst. left. reflexivity.
  - destruct (slot_eq k0 v) eqn:Es.
    + assert (k0 = v) by (apply (Hinj k0 ids0); simpl; auto). subst k0.
      repeat split.
      * destruct H as [H|H].
        -- inversion H; subst. left. f_equal. f_equal.
           clear. induction (ids0 ++ [i]); simpl; congruence.
        -- right. assert (Hf : filter (fun _ : id => true) ids = ids) by (clear; induction ids; simpl; congruence).
           rewrite Hf. exact H.
      * destruct H as [H|H].
        -- inversion H; subst. apply in_app_or in H0. destruct H0 as [H0|[H0|[]]].
           ++ left. exists ids0. split; simpl; auto.
           ++ right. auto.
        -- left. exists ids. split; simpl; auto.
      * exists (ids0 ++ [i]). split; simpl; auto. apply in_or_app. right. simpl. auto.
      * intros k ids1 j [H|H] Hj.
        -- inversion H; subst. exists (ids1 ++ [i]). split; simpl; auto. apply in_or_app. auto.
        -- exists ids1. split; simpl; auto.
      * intros k ids [H|H].
        -- inversion H; subst. left. reflexivity.
        -- right. exists ids. simpl. auto.
    + assert (Hinj' : forall k ids, In (k, ids) idx -> slot_eq k v = true -> k = v).
      { intros k ids Hk. apply (Hinj k ids). simpl. auto. }
      destruct (IH v i Hinj') as [H1 [H2 [H3 H4]]].
      repeat split.
      * destruct H as [H|H].
        -- inversion H; subst. left. f_equal. f_equal. clear. induction ids; simpl; congruence.
        -- right. apply (H1 k ids j H H0).
      * destruct H as [H|H].
        -- inversion H; subst. left. exists ids. split; simpl; auto.
        -- destruct (H1 k ids j H H0) as [_ [[ids1 [Ha Hb]]|Hc]].
           ++ left. exists ids1. split; simpl; auto.
           ++ right. exact Hc.
      * destruct H2 as [ids [Ha Hb]]. exists ids. split; simpl; auto.
      * intros k ids1 j [H|H] Hj.
        -- inversion H; subst. exists ids1. split; simpl; auto.
        -- destruct (H3 k ids1 j H Hj) as [ids [Ha Hb]]. exists ids. split; simpl; auto.
      * intros k ids [H|H].
        -- inversion H; subst. right. exists ids. simpl. auto.
        -- destruct (H4 k ids H) as [Hc|[ids1 Hc]]; [left; auto|right; exists ids1; simpl; auto].
Qed.

Lemma IdxInv_add : forall idx L v i,
  IdxInv idx L -> SlotInj (map snd L ++ [v]) -> IdxInv (index_add idx v i) (L ++ [(i, v)]).
Proof.
  intros idx L v i [I1 [I2 I3]] Hs.
  assert (Hinj : forall k ids, In (k, ids) idx -> slot_eq k v = true -> k = v).
  { intros k ids Hk Hse. apply Hs; auto.
    - apply in_or_app. left. eapply I3; eauto.
    - apply in_or_app. right. simpl. auto. }
  destruct (index_add_spec idx v i Hinj) as [H1 [H2 [H3 H4]]].
  split; [|split].
  - intros k ids j Hk Hj. destruct (H1 k ids j Hk Hj) as [_ [[ids0 [Ha Hb]]|[-> ->]]].
    + apply in_or_app. left. eapply I1; eauto.
    + apply in_or_app. right. simpl. auto.
  - intros j w Hjw. apply in_app_or in Hjw. destruct Hjw as [Hjw|[Hjw|[]]].
    + destruct (I2 _ _ Hjw) as [ids0 [Ha Hb]]. eapply H3; eauto.
    + inversion Hjw; subst. exact H2.
  - intros k ids Hk. rewrite map_app. apply in_or_app.
    destruct (H4 k ids Hk) as [->|[ids0 Hc]].
    + right. simpl. auto.
    + left. eapply I3; eauto.
Qed.

Lemma SlotInj_prefix : forall l1 l2, SlotInj (l1 ++ l2) -> SlotInj l1.
Proof. intros l1 l2 H a b Ha Hb. apply H; apply in_or_app; auto. Qed.

Lemma IdxInv_fold : forall L2 idx L1,
  IdxInv idx L1 -> SlotInj (map snd (L1 ++ L2)) ->
  IdxInv (fold_left (fun idx iv => index_add idx (snd iv) (fst iv)) L2 idx) (L1 ++ L2).
Proof.
  induction L2 as [|[i v] L2 IH]; intros idx L1 Hinv Hs; simpl.
  - rewrite app_nil_r. exact Hinv.
  - replace (L1 ++ (i, v) :: L2) with ((L1 ++ [(i, v)]) ++ L2) by (rewrite <- app_assoc; reflexivity).
    apply IH.
    + apply IdxInv_add; auto.
      replace (L1 ++ (i, v) :: L2) with ((L1 ++ [(i, v)]) ++ L2) in Hs by (rewrite <- app_assoc; reflexivity).
      rewrite map_app in Hs. apply SlotInj_prefix in Hs. rewrite map_app in Hs. exact Hs.
    + rewrite <- app_assoc. exact Hs.
Qed.

Lemma build_index_inv : forall c key,
  SlotInj (map snd (kvals c key)) -> IdxInv (build_index c key) (kvals c key).
Proof.
  intros c key Hs. rewrite build_index_kvals.
  apply (IdxInv_fold (kvals c key) [] []); auto.
  split; [|split]; simpl; intros; tauto.
Qed.

Section OpLoop.
  Variable regex_search : str -> str -> bool.
  Variable isclose : (Z * Z) -> (Z * Z) -> (Z * Z) -> (Z * Z) -> bool.
  Notation eval_op := (eval_op regex_search isclose).
  Notation loop := (find_with_index_operator_loop regex_search isclose).

  Definition eval_true (op : str) (k arg : json) : bool :=
    match eval_op op k arg with Ok true => true | _ => false end.

  Lemma loop_spec : forall op arg idx acc R,
    loop idx op arg acc = Ok R ->
    (forall k ids, In (k, ids) idx -> exists b, eval_op op k arg = Ok b) /\
    (forall j, mem j R = mem j acc || existsb (fun e => mem j (snd e) && eval_true op (fst e) arg) idx).
  Proof.
    induction idx as [|[k ids] idx IH]; intros acc R H; simpl in H.
    - inversion H; subst. split; [intros k ids []|]. intro j. simpl. rewrite orb_false_r. reflexivity.
    - destruct (eval_op op k arg) as [b|] eqn:Eb; simpl in H; [|discriminate].
      destruct (IH _ _ H) as [H1 H2]. split.
      + intros k' ids' [Hk|Hk]; [inversion Hk; subst; eauto|eauto].
      + intro j. rewrite H2.
        assert (Het : eval_true op k arg = b) by (unfold eval_true; rewrite Eb; destruct b; reflexivity).
        cbn [existsb fst snd]. rewrite Het.
        destruct b.
        * rewrite mem_union. destruct (mem j acc), (mem j ids); simpl; auto.
        * rewrite andb_false_r. simpl. reflexivity.
  Qed.
End OpLoop.

Section ExprExact.
  Variable regex_search : str -> str -> bool.
  Variable isclose : (Z * Z) -> (Z * Z) -> (Z * Z) -> (Z * Z) -> bool.
  Notation eval_op := (eval_op regex_search isclose).
  Notation find_expression := (Query.find_expression regex_search isclose).
  Notation match_expression := (Query.match_expression regex_search isclose).

  Variable c : corpus.
  Hypothesis Hnd : NoDup (map fst c).
  (* NoSlotMerge: under every key, two jobs' values share an index slot only if they are identical *)
  Hypothesis Hslots : forall key, SlotInj (map snd (kvals c key)).

  Lemma entry_of_job : forall key i d v,
    In (i, d) c -> own_value d key = Some v ->
    exists ids, In (as_key v, ids) (build_index c key) /\ In i ids.
  Proof.
    intros key i d v Hin Hv. destruct (build_index_inv c key (Hslots key)) as [_ [I2 _]].
    apply I2. eapply own_kvals; eauto.
  Qed.

  Lemma entry_key_of_job : forall key i d k ids,
    In (i, d) c -> In (k, ids) (build_index c key) -> In i ids ->
    exists v, own_value d key = Some v /\ k = as_key v.
  Proof.
    intros key i d k ids Hin Hk Hi. destruct (build_index_inv c key (Hslots key)) as [I1 _].
    eapply kvals_own; eauto.
  Qed.

  Lemma op_loop_exact : forall key op arg R i d,
    find_with_index_operator_loop regex_search isclose (build_index c key) op arg [] = Ok R ->
    In (i, d) c ->
    match own_value d key with
    | Some v => eval_op op (as_key v) arg = Ok (mem i R)
    | None => mem i R = false
    end.
  Proof.
    intros key op arg R i d H Hin.
    destruct (loop_spec regex_search isclose op arg _ _ _ H) as [H1 H2].
    rewrite H2. simpl.
    destruct (own_value d key) as [v|] eqn:Ev.
    - destruct (entry_of_job _ _ _ _ Hin Ev) as [ids [Hk Hi]].
      destruct (H1 _ _ Hk) as [b Hb]. rewrite Hb. f_equal.
      destruct b.
      + symmetry. apply existsb_exists. exists (as_key v, ids). split; auto. simpl.
        apply mem_In in Hi. rewrite Hi. unfold eval_true. rewrite Hb. reflexivity.
      + symmetry. apply not_true_is_false. intro Hex. apply existsb_exists in Hex.
        destruct Hex as [[k ids'] [Hk' Hc]]. simpl in Hc. apply andb_true_iff in Hc. destruct Hc as [Hm Ht].
        apply mem_In in Hm. destruct (entry_key_of_job _ _ _ _ _ Hin Hk' Hm) as [v' [Hv' ->]].
        rewrite Ev in Hv'. inversion Hv'; subst. unfold eval_true in Ht. rewrite Hb in Ht. discriminate.
    - apply not_true_is_false. intro Hex. apply existsb_exists in Hex.
      destruct Hex as [[k ids'] [Hk' Hc]]. simpl in Hc. apply andb_true_iff in Hc. destruct Hc as [Hm _].
      apply mem_In in Hm. destruct (entry_key_of_job _ _ _ _ _ Hin Hk' Hm) as [v' [Hv' _]]. congruence.
  Qed.

  Lemma exists_exact : forall key i d, In (i, d) c ->
    mem i (index_ids (build_index c key)) = match own_value d key with Some _ => true | None => false end.
  Proof.
    intros key i d Hin. unfold index_ids.
    destruct (own_value d key) as [v|] eqn:Ev.
    - destruct (entry_of_job _ _ _ _ Hin Ev) as [ids [Hk Hi]].
      apply mem_In. apply in_flat_map. exists (as_key v, ids). auto.
    - apply not_true_is_false. intro Hm. apply mem_In in Hm. apply in_flat_map in Hm.
      destruct Hm as [[k ids] [Hk Hi]]. simpl in Hi.
      destruct (entry_key_of_job _ _ _ _ _ Hin Hk Hi) as [v' [Hv' _]]. congruence.
  Qed.

  (* operator and $exists expressions: exact with no further assumption *)
  Theorem find_expression_exact_ops : forall key value R,
    contains_char dollar key = true ->
    find_expression c key value = Ok R ->
    forall i d, In (i, d) c -> match_expression d key value = Ok (mem i R).
  Proof.
    intros key value R Hd H i d Hin.
    unfold Query.find_expression in H. unfold Query.match_expression. rewrite Hd in *.
    destruct (Nat.ltb 1 (count_char dollar key)); [discriminate|].
    set (nodes := split_on dot key) in *. set (op := last nodes []) in *.
    destruct (negb (str_prefix [dollar] op)); [discriminate|].
    set (key' := join_with dot (removelast nodes)) in *.
    destruct (str_mem op index_operators) eqn:Eop.
    - unfold find_with_index_operator in H.
      destruct (str_eqb op s_near) eqn:En.
      + destruct (near_args value) as [na|] eqn:Ena; simpl in H; [|discriminate]. simpl.
        pose proof (op_loop_exact key' op value R i d H Hin) as Hl.
        destruct (own_value d key'); [exact Hl|rewrite Hl; reflexivity].
      + simpl.
        pose proof (op_loop_exact key' op value R i d H Hin) as Hl.
        destruct (own_value d key'); [exact Hl|rewrite Hl; reflexivity].
    - destruct (str_eqb op s_exists); [|discriminate].
      destruct value as [|b| | | | |]; try discriminate.
      inversion H; subst. f_equal.
      pose proof (exists_exact key' i d Hin) as Hex.
      destruct b.
      + rewrite Hex. destruct (own_value d key'); reflexivity.
      + rewrite mem_diff, (mem_all_ids _ _ _ Hin), Hex. destruct (own_value d key'); reflexivity.
  Qed.
End ExprExact.

(* ================= implicit equality: index.get with the int/float dual lookup ================= *)

Lemma index_add_keys : forall idx v i,
  map fst (index_add idx v i) = map fst idx \/
  (map fst (index_add idx v i) = map fst idx ++ [v] /\ forall k, In k (map fst idx) -> slot_eq k v = false).
Proof.
  induction idx as [|[k ids] idx IH]; intros v i; simpl.
  - right. split; auto. intros k [].
  - destruct (slot_eq k v) eqn:E; simpl; [left; reflexivity|].
    destruct (IH v i) as [H|[H1 H2]].
    + left. rewrite H. reflexivity.
    + right. split; [rewrite H1; reflexivity|]. intros k' [<-|Hk]; auto.
Qed.

Lemma fold_index_keys_nodup : forall L idx,
  NoDup (map fst idx) ->
  (forall v, In v (map snd L) -> slot_eq v v = true) ->
  NoDup (map fst (fold_left (fun idx iv => index_add idx (snd iv) (fst iv)) L idx)).
Proof.
  induction L as [|[i v] L IH]; intros idx Hnd Hr; simpl; auto.
  apply IH.
  - destruct (index_add_keys idx v i) as [H|[H1 H2]]; [rewrite H; exact Hnd|].
    rewrite H1. clear H1.
    assert (Hnotin : ~ In v (map fst idx)).
    { intro Hk. specialize (H2 _ Hk). rewrite Hr in H2; [discriminate|]. simpl. auto. }
    clear H2. induction (map fst idx) as [|k ks IHk]; simpl.
    + constructor; [intros []|constructor].
    + inversion Hnd; subst. constructor.
      * intro Hin. apply in_app_or in Hin. destruct Hin as [Hin|[Hin|[]]]; [contradiction|].
        subst. apply Hnotin. simpl. auto.
      * apply IHk; auto. intro Hin. apply Hnotin. simpl. auto.
  - intros w Hw. apply Hr. simpl. auto.
Qed.

From SV Require Import PyValProofs.

Definition probe_normal (value : json) : bool :=
  match value with JFloat (m, e) => (0 <=? e)%Z || Z.odd m | _ => true end.

Lemma py_eq_num_l : forall v x, is_num v = true ->
  py_eq v x = match num_of v, num_of x with
              | Some p, Some q => match dy_cmp p q with Eq => true | _ => false end
              | _, _ => false
              end.
Proof.
  intros v x Hn. destruct v; simpl in Hn; try discriminate; destruct x; reflexivity.
Qed.

Lemma py_eq_num_r : forall v x, is_num x = true ->
  py_eq v x = match num_of v, num_of x with
              | Some p, Some q => match dy_cmp p q with Eq => true | _ => false end
              | _, _ => false
              end.
Proof.
  intros v x Hn. destruct x; simpl in Hn; try discriminate; destruct v; try reflexivity;
    simpl; try (destruct f as [m e]; reflexivity).
Qed.

Lemma int_value_num : forall x n, int_value x = Some n ->
  exists m e, num_of x = Some (m, e) /\ (0 <= e)%Z /\ n = (m * 2 ^ e)%Z.
Proof.
  intros x n H. unfold int_value in H. destruct (num_of x) as [[m e]|]; [|discriminate].
  destruct (0 <=? e)%Z eqn:E; [|discriminate]. inversion H. apply Z.leb_le in E. eauto.
Qed.

Lemma probe_pointwise_int : forall v value n, int_value value = Some n ->
  key_eq v value = slot_eq v (JInt n) || slot_eq v (JFloat (n, 0%Z)).
Proof.
  intros v value n Hn. destruct (int_value_num _ _ Hn) as [m [e [Hnum [He ->]]]].
  assert (Hnv : is_num value = true) by (unfold is_num; rewrite Hnum; reflexivity).
  assert (Hq : num_of (JFloat ((m * 2 ^ e)%Z, 0%Z)) = Some ((m * 2 ^ e)%Z, 0%Z)).
  { simpl. destruct (Z.eqb (m * 2 ^ e) 0); reflexivity. }
  unfold key_eq, slot_eq.
  destruct (is_obj v) eqn:Eo; [simpl; reflexivity|].
  cbn [is_obj is_float orb andb].
  rewrite (py_eq_num_r v value Hnv), Hnum.
  rewrite (py_eq_num_r v (JInt (m * 2 ^ e)) eq_refl).
  rewrite (py_eq_num_r v (JFloat ((m * 2 ^ e)%Z, 0%Z)) eq_refl), Hq.
  cbn [num_of].
  destruct (num_of v) as [[m1 e1]|] eqn:Ev.
  - rewrite (dy_cmp_scale_r m1 e1 m e He).
    destruct (is_float v); cbn [andb orb];
      destruct (dy_cmp (m1, e1) ((m * 2 ^ e)%Z, 0%Z)); simpl; try reflexivity;
      destruct (is_m1_m2 v); reflexivity.
  - destruct (is_float v); reflexivity.
Qed.

Lemma int_value_none_float : forall m e, int_value (JFloat (m, e)) = None -> (m <> 0 /\ e < 0)%Z.
Proof.
  intros m e H. unfold int_value in H. simpl in H.
  destruct (Z.eqb m 0) eqn:Em.
  - simpl in H. discriminate.
  - apply Z.eqb_neq in Em. destruct (0 <=? e)%Z eqn:E; [discriminate|]. apply Z.leb_gt in E. auto.
Qed.

Lemma probe_pointwise_other : forall v value,
  int_value value = None -> is_obj value = false -> probe_normal value = true ->
  key_eq v value = slot_eq v value.
Proof.
  intros v value Hn Ho Hp. unfold key_eq, slot_eq. rewrite Ho.
  destruct (is_obj v) eqn:Eo; [simpl; reflexivity|]. cbn [orb].
  destruct (is_float v) eqn:Efv; destruct (is_float value) eqn:Efx; cbn [andb orb]; try reflexivity.
  - (* v float, value not float: value is not a number at all (ints/bools are integer valued) *)
    destruct v as [| | |f| | |]; try discriminate.
    destruct value as [|b|z|g|s|l|kvs]; try discriminate; destruct f as [fm fe]; reflexivity.
  - (* value a non-integer float, v not a float *)
    destruct value as [| | |[m e]| | |]; try discriminate.
    destruct (int_value_none_float _ _ Hn) as [Hm He].
    simpl in Hp. assert (Hodd : Z.odd m = true).
    { apply orb_true_iff in Hp. destruct Hp as [Hp|Hp]; auto. apply Z.leb_le in Hp. lia. }
    assert (Hnum : num_of (JFloat (m, e)) = Some (m, e)).
    { simpl. destruct (Z.eqb m 0) eqn:E; auto. apply Z.eqb_eq in E. contradiction. }
    assert (Hne : py_eq v (JFloat (m, e)) = false).
    { rewrite (py_eq_num_r v (JFloat (m, e)) eq_refl), Hnum.
      destruct v as [|b|z|f|s|l|kvs]; try discriminate; try reflexivity.
      - cbn [num_of]. pose proof (dy_cmp_int_nonint (if b then 1 else 0) m e He Hodd) as Hc.
        destruct (dy_cmp ((if b then 1 else 0)%Z, 0%Z) (m, e)); try reflexivity. contradiction.
      - cbn [num_of]. pose proof (dy_cmp_int_nonint z m e He Hodd) as Hc.
        destruct (dy_cmp (z, 0%Z) (m, e)); try reflexivity. contradiction. }
    rewrite Hne. reflexivity.
Qed.

Definition probes (value : json) : list json :=
  match int_value value with
  | Some n => [JInt n; JFloat (n, 0%Z)]
  | None => [value]
  end.

Lemma probe_pointwise : forall v value, is_obj value = false -> probe_normal value = true ->
  key_eq v value = existsb (slot_eq v) (probes value).
Proof.
  intros v value Ho Hp. unfold probes. destruct (int_value value) as [n|] eqn:En; simpl.
  - rewrite orb_false_r. apply probe_pointwise_int. exact En.
  - rewrite orb_false_r. apply probe_pointwise_other; auto.
Qed.

Lemma index_get_cases : forall idx p,
  (index_get idx p = [] /\ forall k ids, In (k, ids) idx -> slot_eq k p = false) \/
  (exists k0, In (k0, index_get idx p) idx /\ slot_eq k0 p = true).
Proof.
  induction idx as [|[k ids] idx IH]; intro p; simpl.
  - left. split; auto. intros k ids [].
  - destruct (slot_eq k p) eqn:E.
    + right. exists k. split; auto.
    + destruct (IH p) as [[H1 H2]|[k0 [H1 H2]]].
      * left. split; auto. intros k' ids' [H|H]; [inversion H; subst; auto|eauto].
      * right. exists k0. split; auto.
Qed.

Lemma nodup_keys_unique : forall (idx : index) k ids1 ids2,
  NoDup (map fst idx) -> In (k, ids1) idx -> In (k, ids2) idx -> ids1 = ids2.
Proof.
  induction idx as [|[k0 ids0] idx IH]; intros k ids1 ids2 Hnd H1 H2; [inversion H1|].
  simpl in Hnd. inversion Hnd as [|? ? Hnotin Hnd']; subst.
  destruct H1 as [H1|H1]; destruct H2 as [H2|H2].
  - congruence.
  - inversion H1; subst. exfalso. apply Hnotin. change k with (fst (k, ids2)). apply in_map. exact H2.
  - inversion H2; subst. exfalso. apply Hnotin. change k with (fst (k, ids1)). apply in_map. exact H1.
  - eapply IH; eauto.
Qed.

Section EqExact.
  Variable regex_search : str -> str -> bool.
  Variable isclose : (Z * Z) -> (Z * Z) -> (Z * Z) -> (Z * Z) -> bool.
  Notation find_expression := (Query.find_expression regex_search isclose).
  Notation match_expression := (Query.match_expression regex_search isclose).

  Variable c : corpus.
  Hypothesis Hnd : NoDup (map fst c).
  Hypothesis Hslots : forall key, SlotInj (map snd (kvals c key)).
  Hypothesis Hrefl : forall key v, In v (map snd (kvals c key)) -> slot_eq v v = true.

  Lemma index_get_exact : forall key p i d,
    (forall v, In v (map snd (kvals c key)) -> slot_eq v p = true -> v = p) ->
    In (i, d) c ->
    mem i (index_get (build_index c key) p) =
      match own_value d key with Some v => slot_eq (as_key v) p | None => false end.
  Proof.
    intros key p i d Hpi Hin.
    destruct (build_index_inv c key (Hslots key)) as [I1 [I2 I3]].
    assert (Hkeys : NoDup (map fst (build_index c key))).
    { rewrite build_index_kvals. apply fold_index_keys_nodup; [constructor|]. intros v Hv. eapply Hrefl; eauto. }
    destruct (own_value d key) as [v|] eqn:Ev.
    - destruct (entry_of_job c Hslots key i d v Hin Ev) as [ids [Hk Hi]].
      destruct (slot_eq (as_key v) p) eqn:Es.
      + destruct (index_get_cases (build_index c key) p) as [[_ H2]|[k0 [H1 H2]]].
        * rewrite (H2 _ _ Hk) in Es. discriminate.
        * assert (k0 = p) by (apply Hpi; auto; eapply I3; eauto).
          assert (as_key v = p) by (apply Hpi; auto; eapply I3; eauto).
          subst k0. rewrite H0 in Hk.
          rewrite (nodup_keys_unique _ _ _ _ Hkeys H1 Hk). apply mem_In. exact Hi.
      + apply not_true_is_false. intro Hm. apply mem_In in Hm.
        destruct (index_get_cases (build_index c key) p) as [[H1 _]|[k0 [H1 H2]]].
        * rewrite H1 in Hm. inversion Hm.
        * destruct (entry_key_of_job c Hnd Hslots key i d k0 _ Hin H1 Hm) as [v' [Hv' ->]].
          rewrite Ev in Hv'. inversion Hv'; subst. congruence.
    - apply not_true_is_false. intro Hm. apply mem_In in Hm.
      destruct (index_get_cases (build_index c key) p) as [[H1 _]|[k0 [H1 H2]]].
      + rewrite H1 in Hm. inversion Hm.
      + destruct (entry_key_of_job c Hnd Hslots key i d k0 _ Hin H1 Hm) as [v' [Hv' _]]. congruence.
  Qed.

  (* implicit equality {key: value}: exact when no job's value shares a slot with a probe unless
     it is that probe (the probes are int(value) and _float(value) for integer-valued numbers) *)
  Theorem find_expression_exact_eq : forall key value R,
    contains_char dollar key = false ->
    probe_normal value = true ->
    (forall v p, In v (map snd (kvals c key)) -> In p (probes value) -> slot_eq v p = true -> v = p) ->
    find_expression c key value = Ok R ->
    forall i d, In (i, d) c -> match_expression d key value = Ok (mem i R).
  Proof.
    intros key value R Hd Hpn Hpi H i d Hin.
    unfold Query.find_expression in H. unfold Query.match_expression. rewrite Hd in *.
    destruct (is_obj value) eqn:Eo.
    { destruct value; try discriminate. }
    assert (Hgoal : mem i R = match own_value d key with Some v => key_eq (as_key v) value | None => false end).
    { assert (Hprobe : forall v, key_eq (as_key v) value = existsb (slot_eq (as_key v)) (probes value)).
      { intro v. apply probe_pointwise; auto. }
      unfold probes in *. destruct (int_value value) as [n|] eqn:En.
      - assert (HR : R = union (index_get (build_index c key) (JInt n)) (index_get (build_index c key) (JFloat (n, 0%Z)))).
        { destruct value; try discriminate; inversion H; reflexivity. }
        rewrite HR, mem_union.
        rewrite (index_get_exact key (JInt n) i d) by (auto; intros v Hv; apply Hpi; simpl; auto).
        rewrite (index_get_exact key (JFloat (n, 0%Z)) i d) by (auto; intros v Hv; apply Hpi; simpl; auto).
        destruct (own_value d key) as [v|]; [|reflexivity].
        rewrite Hprobe. simpl. rewrite orb_false_r. reflexivity.
      - assert (HR : R = index_get (build_index c key) value).
        { destruct value; try discriminate; inversion H; reflexivity. }
        rewrite HR.
        rewrite (index_get_exact key value i d) by (auto; intros v Hv; apply Hpi; simpl; auto).
        destruct (own_value d key) as [v|]; [|reflexivity].
        rewrite Hprobe. simpl. rewrite orb_false_r. reflexivity. }
    rewrite Hgoal. destruct value; try discriminate; destruct (own_value d key); reflexivity.
  Qed.
End EqExact.

(* ================= implicit equality without the probe side condition ================= *)
From SV Require Import PyEqEquiv.

Section EqExactFull.
  Variable regex_search : str -> str -> bool.
  Variable isclose : (Z * Z) -> (Z * Z) -> (Z * Z) -> (Z * Z) -> bool.
  Notation find_expression := (Query.find_expression regex_search isclose).
  Notation match_expression := (Query.match_expression regex_search isclose).

  Variable c : corpus.
  Hypothesis Hnd : NoDup (map fst c).
  Hypothesis Hslots : forall key, SlotInj (map snd (kvals c key)).
  Hypothesis Hrefl : forall key v, In v (map snd (kvals c key)) -> slot_eq v v = true.
  (* indexed values are mapping-free below the top level and hold normalised floats *)
  Hypothesis Hok : forall key v, In v (map snd (kvals c key)) -> okv v = true.

  Lemma index_get_exact_euclid : forall key p i d,
    okv p = true -> In (i, d) c ->
    mem i (index_get (build_index c key) p) =
      match own_value d key with Some v => slot_eq (as_key v) p | None => false end.
  Proof.
    intros key p i d Hp Hin.
    destruct (build_index_inv c key (Hslots key)) as [I1 [I2 I3]].
    assert (Hkeys : NoDup (map fst (build_index c key))).
    { rewrite build_index_kvals. apply fold_index_keys_nodup; [constructor|]. intros v Hv. eapply Hrefl; eauto. }
    destruct (own_value d key) as [v|] eqn:Ev.
    - destruct (entry_of_job c Hslots key i d v Hin Ev) as [ids [Hk Hi]].
      destruct (slot_eq (as_key v) p) eqn:Es.
      + destruct (index_get_cases (build_index c key) p) as [[_ H2]|[k0 [H1 H2]]].
        * rewrite (H2 _ _ Hk) in Es. discriminate.
        * assert (Hk0 : In k0 (map snd (kvals c key))) by (eapply I3; eauto).
          assert (Hv : In (as_key v) (map snd (kvals c key))) by (eapply I3; eauto).
          assert (k0 = as_key v).
          { apply (Hslots key); auto. apply (slot_eq_euclid k0 (as_key v) p); eauto. }
          subst k0. rewrite (nodup_keys_unique _ _ _ _ Hkeys H1 Hk). apply mem_In. exact Hi.
      + apply not_true_is_false. intro Hm. apply mem_In in Hm.
        destruct (index_get_cases (build_index c key) p) as [[H1 _]|[k0 [H1 H2]]].
        * rewrite H1 in Hm. inversion Hm.
        * destruct (entry_key_of_job c Hnd Hslots key i d k0 _ Hin H1 Hm) as [v' [Hv' ->]].
          rewrite Ev in Hv'. inversion Hv'; subst. congruence.
    - apply not_true_is_false. intro Hm. apply mem_In in Hm.
      destruct (index_get_cases (build_index c key) p) as [[H1 _]|[k0 [H1 H2]]].
      + rewrite H1 in Hm. inversion Hm.
      + destruct (entry_key_of_job c Hnd Hslots key i d k0 _ Hin H1 Hm) as [v' [Hv' _]]. congruence.
  Qed.

  Lemma probes_ok : forall value p, flatv value = true -> probe_normal value = true ->
    In p (probes value) -> okv p = true.
  Proof.
    intros value p Hf Hn Hp. unfold probes in Hp. destruct (int_value value) as [n|].
    - destruct Hp as [<-|[<-|[]]]; reflexivity.
    - destruct Hp as [<-|[]]. unfold okv. rewrite Hf. simpl.
      destruct value as [| | |[m e]| | |]; auto.
  Qed.

  (* implicit equality {key: value}, incl. the int/float dual lookup: exact under NoSlotMerge for every
     mapping-free value with normalised floats — no condition relating the value to the corpus *)
  Theorem find_expression_exact_eq_full : forall key value R,
    contains_char dollar key = false ->
    flatv value = true -> probe_normal value = true ->
    find_expression c key value = Ok R ->
    forall i d, In (i, d) c -> match_expression d key value = Ok (mem i R).
  Proof.
    intros key value R Hd Hfl Hpn H i d Hin.
    unfold Query.find_expression in H. unfold Query.match_expression. rewrite Hd in *.
    assert (Eo : is_obj value = false) by (destruct value; try reflexivity; discriminate).
    assert (Hgoal : mem i R = match own_value d key with Some v => key_eq (as_key v) value | None => false end).
    { assert (Hprobe : forall v, key_eq (as_key v) value = existsb (slot_eq (as_key v)) (probes value)).
      { intro v. apply probe_pointwise; auto. }
      pose proof (probes_ok value) as Hpok.
      unfold probes in *. destruct (int_value value) as [n|] eqn:En.
      - assert (HR : R = union (index_get (build_index c key) (JInt n)) (index_get (build_index c key) (JFloat (n, 0%Z)))).
        { destruct value; try discriminate; inversion H; reflexivity. }
        rewrite HR, mem_union.
        rewrite (index_get_exact_euclid key (JInt n) i d) by (auto; apply Hpok; simpl; auto).
        rewrite (index_get_exact_euclid key (JFloat (n, 0%Z)) i d) by (auto; apply Hpok; simpl; auto).
        destruct (own_value d key) as [v|]; [|reflexivity].
        rewrite Hprobe. simpl. rewrite orb_false_r. reflexivity.
      - assert (HR : R = index_get (build_index c key) value).
        { destruct value; try discriminate; inversion H; reflexivity. }
        rewrite HR.
        rewrite (index_get_exact_euclid key value i d) by (auto; apply Hpok; simpl; auto).
        destruct (own_value d key) as [v|]; [|reflexivity].
        rewrite Hprobe. simpl. rewrite orb_false_r. reflexivity. }
    rewrite Hgoal. destruct value; try discriminate; destruct (own_value d key); reflexivity.
  Qed.
End EqExactFull.
