(* C06 — find_jobs returns exactly the jobs a per-job reference evaluator accepts.
   Only statements; proofs are in SV.QueryProofs / SV.C06Proofs.  All theorems are parametric in the
   library oracles regex_search (re.search) and isclose (math.isclose). *)
From SV Require Import Base Json PyVal PyEqEquiv Query QueryProofs C06Proofs C06DocProofs C06Collide CorrC06.

(* FULL STATEMENT (what the property says): for every corpus c and filter f,
     find c f = Ok R  ->  forall job, In job c -> (mem job R = true <-> matches job f = Ok true).
   It is FALSE of the current code (see the C06_find_exact_refuted theorems).  Proved below
   (C06_find_exact_partial, C06_find_job_ids_exact_partial) under the single semantic hypothesis
     NoSlotMerge  (no two different values under one key share a dict slot: True/1, -1/-1.0, ...)
   plus well-formedness of data and filter: distinct keys in mappings (wf), lists holding no mappings
   and floats given normalised (deep_ok / PlainLeaf).  Python's == and the dict-slot relation are
   proved to be equivalence relations on such values (C06_slot_relation_equivalence). *)

(* logical structure: $and/$or/$not, flattening, early exit — exact for ANY per-expression oracle *)
Theorem C06_find_result_exact_given_expressions :
  forall rs ic (P : str -> json -> Prop) (c : corpus),
    ExprOK rs ic P c ->
    forall fuel expr R, AllLeaves P fuel expr -> find_result rs ic fuel c expr = Ok R ->
    forall i d, In (i, d) c -> matches rs ic true fuel d expr = Ok (mem i R).
Proof. exact find_result_exact. Qed.
Print Assumptions C06_find_result_exact_given_expressions.

(* operator and $exists leaf expressions: the typed index is exact under NoSlotMerge alone *)
Theorem C06_operator_expressions_exact : forall rs ic (c : corpus),
  NoDup (map fst c) -> (forall key, SlotInj (map snd (kvals c key))) ->
  forall key value R, contains_char dollar key = true ->
    find_expression rs ic c key value = Ok R ->
    forall i d, In (i, d) c -> match_expression rs ic d key value = Ok (mem i R).
Proof. exact find_expression_exact_ops. Qed.
Print Assumptions C06_operator_expressions_exact.

(* implicit equality incl. the int/float dual lookup *)
Theorem C06_equality_expressions_exact_partial : forall rs ic (c : corpus),
  NoDup (map fst c) -> (forall key, SlotInj (map snd (kvals c key))) ->
  (forall key v, In v (map snd (kvals c key)) -> slot_eq v v = true) ->
  forall key value R, contains_char dollar key = false -> probe_normal value = true ->
    (forall v p, In v (map snd (kvals c key)) -> In p (probes value) -> slot_eq v p = true -> v = p) ->
    find_expression rs ic c key value = Ok R ->
    forall i d, In (i, d) c -> match_expression rs ic d key value = Ok (mem i R).
Proof. exact find_expression_exact_eq. Qed.
Print Assumptions C06_equality_expressions_exact_partial.

(* the probes of an equality expression are matched by exactly the values Python's == accepts *)
Theorem C06_probes_are_python_equality : forall v value,
  is_obj value = false -> probe_normal value = true ->
  key_eq v value = existsb (slot_eq v) (probes value).
Proof. exact probe_pointwise. Qed.
Print Assumptions C06_probes_are_python_equality.

Theorem C06_find_exact_partial : forall rs ic c fuel expr R,
  NoDup (map fst c) -> NoSlotMerge c ->
  Forall (fun jd => wf (snd jd) = true) c -> Forall (fun jd => deep_ok (snd jd) = true) c ->
  AllLeaves PlainLeaf fuel expr ->
  find_result rs ic fuel c expr = Ok R ->
  forall i d, In (i, d) c -> matches rs ic true fuel d expr = Ok (mem i R).
Proof. exact find_exact. Qed.
Print Assumptions C06_find_exact_partial.

(* the dict-slot relation of the typed index is an equivalence on mapping-free values *)
Theorem C06_slot_relation_equivalence :
  (forall a b, okv a = true -> okv b = true -> slot_eq a b = slot_eq b a) /\
  (forall a b c, okv a = true -> okv b = true -> okv c = true ->
     slot_eq a b = true -> slot_eq b c = true -> slot_eq a c = true).
Proof. split; [exact slot_eq_sym|exact slot_eq_trans]. Qed.
Print Assumptions C06_slot_relation_equivalence.

(* implicit equality, incl. the int/float dual lookup, with no condition relating value and corpus *)
Theorem C06_equality_expressions_exact : forall rs ic (c : corpus),
  NoDup (map fst c) -> (forall key, SlotInj (map snd (kvals c key))) ->
  (forall key v, In v (map snd (kvals c key)) -> slot_eq v v = true) ->
  (forall key v, In v (map snd (kvals c key)) -> okv v = true) ->
  forall key value R, contains_char dollar key = false -> flatv value = true -> probe_normal value = true ->
    find_expression rs ic c key value = Ok R ->
    forall i d, In (i, d) c -> match_expression rs ic d key value = Ok (mem i R).
Proof. exact find_expression_exact_eq_full. Qed.
Print Assumptions C06_equality_expressions_exact.

Theorem C06_slotrefl_from_wf : forall c, Forall (fun jd => wf (snd jd) = true) c -> SlotRefl c.
Proof. exact SlotRefl_wf. Qed.
Print Assumptions C06_slotrefl_from_wf.

(* whether a job matches depends only on its own data *)
Theorem C06_find_local_partial : forall rs ic c c' fuel expr R R' i d,
  NoDup (map fst c) -> NoSlotMerge c -> SlotRefl c -> AllLeaves (GoodLeaf c) fuel expr ->
  NoDup (map fst c') -> NoSlotMerge c' -> SlotRefl c' -> AllLeaves (GoodLeaf c') fuel expr ->
  find_result rs ic fuel c expr = Ok R -> find_result rs ic fuel c' expr = Ok R' ->
  In (i, d) c -> In (i, d) c' -> mem i R = mem i R'.
Proof. exact find_local. Qed.
Print Assumptions C06_find_local_partial.

(* $not / $and / $or = complement / intersection / union of the operand results (no side condition) *)
Theorem C06_find_not : forall rs ic fuel c e nm, e <> JNull ->
  find_result rs ic fuel c e = Ok nm ->
  exists R, find_result rs ic (Datatypes.S fuel) c (JObj [(s_not, e)]) = Ok R /\
            forall i, mem i R = mem i (all_ids c) && negb (mem i nm).
Proof. exact find_not. Qed.
Print Assumptions C06_find_not.

Theorem C06_find_and : forall rs ic fuel c a b Ra Rb,
  find_result rs ic fuel c a = Ok Ra -> find_result rs ic fuel c b = Ok Rb ->
  exists R, find_result rs ic (Datatypes.S fuel) c (JObj [(s_and, JArr [a; b])]) = Ok R /\
            forall i, mem i R = mem i Ra && mem i Rb.
Proof. exact find_and2. Qed.
Print Assumptions C06_find_and.

Theorem C06_find_or : forall rs ic fuel c a b Ra Rb,
  find_result rs ic fuel c a = Ok Ra -> find_result rs ic fuel c b = Ok Rb ->
  exists R, find_result rs ic (Datatypes.S fuel) c (JObj [(s_or, JArr [a; b])]) = Ok R /\
            forall i, mem i R = mem i Ra || mem i Rb.
Proof. exact find_or2. Qed.
Print Assumptions C06_find_or.

(* namespace decision: a filter that names no key of the doc namespace (at any depth, also beneath
   $not/$and/$or) never reads job documents, so leaving them out of the index changes nothing *)
Theorem C06_doc_namespace_irrelevant : forall rs ic sc fuel pf j,
  str_mem s_doc (root_keys fuel pf) = false ->
  matches rs ic sc fuel (snd (job_doc true j)) pf = matches rs ic sc fuel (snd (job_doc false j)) pf.
Proof. exact job_doc_irrelevant. Qed.
Print Assumptions C06_doc_namespace_irrelevant.

(* Project._find_job_ids (prefixing, namespace decision, index search) against per-job evaluation on
   the job's own state point AND document *)
Theorem C06_find_job_ids_exact_partial : forall rs ic fuel jobs f pf R,
  is_empty_filter f = false ->
  add_prefix fuel f = Ok pf ->
  let inc := str_mem s_doc (root_keys fuel pf) in
  let c := map (job_doc inc) jobs in
  NoDup (map fst c) -> NoSlotMerge c ->
  Forall (fun jd => wf (snd jd) = true) c -> Forall (fun jd => deep_ok (snd jd) = true) c ->
  AllLeaves PlainLeaf fuel pf ->
  find_job_ids rs ic fuel jobs f = Ok R ->
  forall j, In j jobs -> job_matches rs ic true fuel f j = Ok (mem (j_id j) R).
Proof. exact find_job_ids_exact_syntactic. Qed.
Print Assumptions C06_find_job_ids_exact_partial.

(* the reference evaluator of the oracle is defined on the filter AS WRITTEN (add_prefix_all keeps a condition per
   pair of the user's mapping, also when prefixing makes two keys equal: 'a' next to 'sp.a'); on every collision-free
   filter it is the per-job evaluation that C06_find_job_ids_exact_partial speaks about, so the theorems above apply to
   the oracle's reference.  (For colliding filters the implementation used to keep only the last condition; repaired,
   fixed entry C06 4280995.) *)
Theorem C06_prefixing_keeps_every_condition : forall fuel f,
  collision_free fuel f = true -> add_prefix_all fuel f = add_prefix fuel f.
Proof. exact add_prefix_all_eq. Qed.
Print Assumptions C06_prefixing_keeps_every_condition.

Theorem C06_reference_is_job_matches : forall rs ic sc fuel f j,
  collision_free fuel f = true ->
  job_matches_all rs ic sc fuel f j = job_matches rs ic sc fuel f j.
Proof. exact job_matches_all_eq. Qed.
Print Assumptions C06_reference_is_job_matches.

(* a colliding filter is answered as the conjunction of all its conditions (vm_compute on the model of the repaired
   _add_prefix): {'a': 1, 'sp.a': 2} selects no job, {'a': {'$gt': 0}, 'sp.a': {'$lt': 3}} selects a in {1, 2} *)
Example C06_colliding_filter_is_conjunction :
  collision_free 12 (JObj [([97%N], JInt 1); ([115;112;46;97]%N, JInt 2)]) = false /\
  add_prefix 12 (JObj [([97%N], JInt 1); ([115;112;46;97]%N, JInt 2)])
  = Ok (JObj [([115;112;46;97]%N, JInt 1); (s_and, JArr [JObj [([115;112;46;97]%N, JInt 2)]])]).
Proof. vm_compute. split; reflexivity. Qed.

(* the full statement is false of the faithful model: witnesses (replayed on the implementation by
   harness/c06.py; known finding C06 tag 1) *)
Theorem C06_find_exact_refuted_bool_int :
  let jobs := [job_of 1 (JBool true); job_of 2 (JInt 1)] in
  let f := type_filter t_bool in
  exists R, find_job_ids no_regex no_isclose 8 jobs f = Ok R /\ mem [2%N] R = true /\
            job_matches no_regex no_isclose true 8 f (job_of 2 (JInt 1)) = Ok false.
Proof. exact refuted_bool_int. Qed.
Print Assumptions C06_find_exact_refuted_bool_int.

Theorem C06_find_exact_refuted_minus_one :
  let jobs := [job_of 1 (JInt (-1)); job_of 2 (JFloat ((-1)%Z, 0%Z))] in
  let f := type_filter t_float in
  exists R, find_job_ids no_regex no_isclose 8 jobs f = Ok R /\ mem [2%N] R = false /\
            job_matches no_regex no_isclose true 8 f (job_of 2 (JFloat ((-1)%Z, 0%Z))) = Ok true.
Proof. exact refuted_m1_float. Qed.
Print Assumptions C06_find_exact_refuted_minus_one.

Theorem C06_locality_refuted :
  let f := type_filter t_float in
  let j2 := job_of 2 (JFloat ((-1)%Z, 0%Z)) in
  exists R R', find_job_ids no_regex no_isclose 8 [job_of 1 (JInt (-1)); j2] f = Ok R /\
               find_job_ids no_regex no_isclose 8 [j2] f = Ok R' /\
               mem [2%N] R = false /\ mem [2%N] R' = true.
Proof. exact refuted_locality. Qed.
Print Assumptions C06_locality_refuted.

Example C06_hypotheses_satisfiable :
  let c : corpus := [([1%N], JObj [(s_sp, JObj [(key_a, JInt 5)])]); ([2%N], JObj [(s_sp, JObj [(key_a, JStr [120%N])])])] in
  NoDup (map fst c) /\ Forall (fun jd => wf (snd jd) = true) c.
Proof. exact hypotheses_satisfiable. Qed.
