(* C12 — concurrent processes initialise jobs and write documents without corruption.
   This file only states theorems; proofs live in SV.Proc / SV.C12Proofs.

   Model: actors are the step programs of SV.Crash (Project(), open_job(sp).init(), job.doc[k] = v, job.doc(),
   len(project)) under the interleaving semantics of SV.Proc: a schedule is a list of actor indices, every
   position lets that actor perform ONE file-system call; after the schedule the unfinished actors run to the
   end one after the other.  All theorems hold for EVERY schedule (of any length) and any number of actors.

   Status: interleave_disjoint (generic commutation) FULL; docs_disjoint_jobs FULL (also covers initialising
   DIFFERENT jobs); doc_read_after_write FULL; init_race_direct_write REFUTED (the property rests on the
   backend's default; known finding 1 is its replay on the real code with thread support switched off);
   init_race_safe for the SAME job — see below (C12_init_race_safe_same_job).
   What the model cannot exhibit: preemption inside a system call, NFS semantics, page-cache visibility
   between hosts; os.replace is assumed atomic. *)
From SV Require Import Base Json MD5 Canon FS Proc Crash CorrC11 CorrC12 C12Proofs.

Theorem C12_sequential_is_empty_schedule : forall A f (ps : list (prog A)), interleave [] f ps = sequential f ps.
Proof. exact interleave_nil. Qed.
Print Assumptions C12_sequential_is_empty_schedule.

(* disjoint-footprint commutation: programs confined to pairwise incomparable sub-trees (they may stat
   common ancestors) obtain, under every schedule, the results of their solo runs; below each sub-tree the
   final state is what the solo run leaves there and nothing else changes *)
Theorem C12_interleave_disjoint : forall A (ds : list path) (ps : list (prog A)) f0 sched,
  length ds = length ps ->
  (forall i d p, nth_error ds i = Some d -> nth_error ps i = Some p -> prog_confined f0 d p) ->
  (forall i j di dj, i <> j -> nth_error ds i = Some di -> nth_error ds j = Some dj -> incomparable di dj) ->
  snd (interleave sched f0 ps) = snd (sequential f0 ps) /\
  fs_eq (fst (interleave sched f0 ps)) (fst (sequential f0 ps)).
Proof. exact interleave_disjoint_seq. Qed.
Print Assumptions C12_interleave_disjoint.

(* actors that each work on their OWN job (Project(), init, document writes and reads of that job, in any
   number and order) commute: every schedule gives every actor the values of the sequential execution and
   ends in the same tree *)
Theorem C12_docs_disjoint_jobs : forall frepr atomic f0 w1 w2 wr (specs : list aspec) sched,
  let ws := w1 :: w2 :: wr in
  get f0 ws = Some Dir ->
  NoDup (map s_id specs) ->
  (forall s, In s specs -> Forall (own_act frepr (s_id s)) (s_acts s)) ->
  let ps := map (spec_prog frepr atomic ws) specs in
  snd (interleave sched f0 ps) = snd (sequential f0 ps) /\
  fs_eq (fst (interleave sched f0 ps)) (fst (sequential f0 ps)).
Proof. exact docs_disjoint_jobs_lemma. Qed.
Print Assumptions C12_docs_disjoint_jobs.

(* a read performed in any state that holds the file installed by a completed document write returns
   exactly the written value *)
Theorem C12_doc_read_after_write : forall frepr tag (f f1 : fs) (file : path) (v : json),
  run (doc_store frepr tag file v (fun r => match r with inl _ => Ret tt | inr e => Raise e end)) f = (f1, inl tt) ->
  forall g, (forall q, q = file -> get g q = get f1 q) ->
  snd (run (doc_load file (fun r => match r with inl d => Ret d | inr e => Raise e end)) g) = inl v.
Proof. exact doc_read_after_write_lemma. Qed.
Print Assumptions C12_doc_read_after_write.

(* with in-place writes (JSON thread support off) two initialisers of one job can collide: the second
   finds the file present but empty, skips its own save and fails; with the temp-file protocol the same
   schedule succeeds *)
Theorem C12_init_race_direct_write_refuted :
  snd (interleave wit_sched wit_f0 (wit_progs false)) = [inl [OUnit; OUnit]; inr (PExn EJobsCorrupted)]
  /\ snd (interleave wit_sched wit_f0 (wit_progs true)) = [inl [OUnit; OUnit]; inl [OUnit; OUnit]].
Proof. exact init_race_direct_write_witness. Qed.
Print Assumptions C12_init_race_direct_write_refuted.
