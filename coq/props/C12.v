(* C12 — concurrent processes initialise jobs and write documents without corruption. *)
From SV Require Import Base Json MD5 Canon FS Proc Crash CorrC11 CorrC12 C12Proofs.

Theorem C12_sequential_is_empty_schedule : forall A f (ps : list (prog A)), interleave [] f ps = sequential f ps.
Proof. exact interleave_nil. Qed.
Print Assumptions C12_sequential_is_empty_schedule.
