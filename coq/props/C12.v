(* C12 — concurrent processes initialise jobs and write documents without corruption.
   This file only states theorems; proofs live in SV.Proc / SV.C12Proofs.

   Model: actors are the step programs of SV.Crash (Project(), open_job(sp).init(), job.doc[k] = v, job.doc(),
   len(project)) under the interleaving semantics of SV.Proc: a schedule is a list of actor indices, every
   position lets that actor perform ONE file-system call; after the schedule the unfinished actors run to the
   end one after the other.  All theorems hold for EVERY schedule (of any length) and any number of actors.

   Status: interleave_disjoint (generic commutation) FULL; docs_disjoint_jobs FULL (also covers initialising
   DIFFERENT jobs); doc_read_after_write FULL; init_race_direct_write REFUTED (the property rests on the
   backend's default; known finding 1 is its replay on the real code with thread support switched off);
   init_race_safe FULL (n actors, same or different jobs, temp-file protocol);
   doc_reader_never_torn FULL (a writer and a reader of ONE document — job or project document — in two
   processes, every schedule; temp-file protocol); doc_direct_write_torn REFUTED for in-place document writes
   (neither write_concern nor thread support: what a changed default would give; seeded trial C12-5).
   What the model cannot exhibit: preemption inside a system call, NFS semantics, page-cache visibility
   between hosts; os.replace is assumed atomic. *)
From SV Require Import Base Json MD5 Canon FS Proc Crash CorrC11 CorrC12 C12Proofs C12Race C12Doc.

Theorem C12_sequential_is_empty_schedule : forall A f (ps : list (prog A)), interleave [] f ps = sequential f ps.
Proof. exact interleave_nil. Qed.
Print Assumptions C12_sequential_is_empty_schedule.

(* disjoint-footprint commutation: programs confined to pairwise incomparable sub-trees (they may stat
   common ancestors) obtain, under every schedule, the results of their solo runs; below each sub-tree the
   final state is what the solo run leaves there and nothing else changes *)
Theorem C12_interleave_disjoint : forall A (ds : list path) (ps : list (prog A)) f0 sched,
  length ds = length ps ->
  (forall i d p, nth_error ds i = Some d -> nth_error ps i = Some p -> prog_confined f0 d p) ->
  (forall i j di dj, i <> j -> nth_error ds i = Some di -> nth_error ds j = Some dj -> incomparable di dj) ->
  snd (interleave sched f0 ps) = snd (sequential f0 ps) /\
  fs_eq (fst (interleave sched f0 ps)) (fst (sequential f0 ps)).
Proof. exact interleave_disjoint_seq. Qed.
Print Assumptions C12_interleave_disjoint.

(* actors that each work on their OWN job (Project(), init, document writes and reads of that job, in any
   number and order) commute: every schedule gives every actor the values of the sequential execution and
   ends in the same tree *)
Theorem C12_docs_disjoint_jobs : forall frepr atomic f0 w1 w2 wr (specs : list aspec) sched,
  let ws := w1 :: w2 :: wr in
  get f0 ws = Some Dir ->
  NoDup (map s_id specs) ->
  (forall s, In s specs -> Forall (own_act frepr (s_id s)) (s_acts s)) ->
  let ps := map (spec_prog frepr atomic ws) specs in
  snd (interleave sched f0 ps) = snd (sequential f0 ps) /\
  fs_eq (fst (interleave sched f0 ps)) (fst (sequential f0 ps)).
Proof. exact docs_disjoint_jobs_lemma. Qed.
Print Assumptions C12_docs_disjoint_jobs.

(* a read performed in any state that holds the file installed by a completed document write returns
   exactly the written value *)
Theorem C12_doc_read_after_write : forall frepr tag (f f1 : fs) (file : path) (v : json),
  run (doc_store frepr tag file v (fun r => match r with inl _ => Ret tt | inr e => Raise e end)) f = (f1, inl tt) ->
  forall g, (forall q, q = file -> get g q = get f1 q) ->
  snd (run (doc_load file (fun r => match r with inl d => Ret d | inr e => Raise e end)) g) = inl v.
Proof. exact doc_read_after_write_lemma. Qed.
Print Assumptions C12_doc_read_after_write.

(* A process assigns to a document (any file [dir/name] holding a complete document v0: a job document or
   the project document) with the temp-file + os.replace protocol while ANOTHER process reads the same
   document.  Under EVERY schedule — the reader's read at any position between the writer's file-system calls —
   both complete without error, the reader sees the old or the new content (never a torn one), the new
   document is installed and no temp file is left. *)
Theorem C12_doc_reader_never_torn : forall frepr tag dir name f0 v0 v c0,
  get f0 (dir ++ [name]) = Some (File c0) -> c_json c0 = Some v0 ->
  get f0 dir = Some Dir ->
  get f0 (tmpname tag (dir ++ [name])) <> Some Dir ->
  forall sched,
  exists f1 d, interleave sched f0 [doc_writer frepr tag dir name v; doc_reader dir name] = (f1, [inl v; inl d]) /\
               (d = v0 \/ d = v) /\
               get f1 (dir ++ [name]) = Some (File (jcontent frepr v)) /\
               get f1 (tmpname tag (dir ++ [name])) = None.
Proof. exact doc_reader_never_torn_lemma. Qed.
Print Assumptions C12_doc_reader_never_torn.

(* REFUTED for a document written in place (truncating open, write, close on the file itself — what signac
   does when a document is built without write_concern AND thread support is off): the reader scheduled between
   the open and the write fails with a decode error; the same schedule with the temp-file protocol reads the
   old content *)
Theorem C12_doc_direct_write_torn_refuted :
  snd (interleave dw_sched dw_f0 [doc_writer_direct dw_repr [97%N] dw_file dw_v; doc_reader [[112%N]] DOCF])
    = [inl dw_v; inr (PExn EValueError)]
  /\ snd (interleave dw_sched dw_f0 [doc_writer dw_repr [97%N] [[112%N]] DOCF dw_v; doc_reader [[112%N]] DOCF])
    = [inl dw_v; inl dw_v0].
Proof. exact doc_direct_write_torn_witness. Qed.
Print Assumptions C12_doc_direct_write_torn_refuted.

(* with in-place writes (JSON thread support off) two initialisers of one job can collide: the second
   finds the file present but empty, skips its own save and fails; with the temp-file protocol the same
   schedule succeeds *)
Theorem C12_init_race_direct_write_refuted :
  snd (interleave wit_sched wit_f0 (wit_progs false)) = [inl [OUnit; OUnit]; inr (PExn EJobsCorrupted)]
  /\ snd (interleave wit_sched wit_f0 (wit_progs true)) = [inl [OUnit; OUnit]; inl [OUnit; OUnit]].
Proof. exact init_race_direct_write_witness. Qed.
Print Assumptions C12_init_race_direct_write_refuted.

(* n processes run Project(); open_job(sp).init() on the same or on different jobs with the temp-file
   protocol, from a workspace in which every requested job is absent or valid and has no stale temp file
   ([pre_ok]); same-id actors pass the same state point value.  Under EVERY schedule: every actor ends Ok
   (a torn state point would fail the validating load), the final tree is that of the sequential
   composition, every requested job is a directory whose state point file validates, no temp file is
   left and nothing else has changed. *)
Theorem C12_init_race_safe : forall (frepr : fl -> str) (w1 w2 : str) (wr : path) (f0 : fs) (specs : list rspec),
  get f0 (w1 :: w2 :: wr) = Some Dir ->
  NoDup (map r_tag specs) ->
  (forall s t, In s specs -> In t specs -> jid frepr s = jid frepr t -> r_sp s = r_sp t) ->
  (forall s, In s specs -> is_jnull (r_sp s) = false) ->
  (forall s, In s specs -> pre_ok frepr w1 w2 wr f0 s) ->
  forall sched : list nat,
  let '(f1, os) := interleave sched f0 (map (rprog frepr w1 w2 wr) specs) in
  os = map (fun _ => inl [OUnit; OUnit]) specs /\
  fs_eq f1 (fst (sequential f0 (map (rprog frepr w1 w2 wr) specs))) /\
  (forall s, In s specs ->
     validf frepr w1 w2 wr f1 s /\ get f1 (dirp frepr w1 w2 wr s) = Some Dir /\ get f1 (tmpp frepr w1 w2 wr s) = None) /\
  (forall q, ~ owned frepr w1 w2 wr specs q -> get f1 q = get f0 q).
Proof. exact init_race_safe_lemma. Qed.
Print Assumptions C12_init_race_safe.

(* licence for the correspondence step *)
Theorem C12_model_holds : forall c,
  mismatch_C12 c = false ->
  exists f ps,
    irun (map fst (q_sched c)) (q_pre c, progs_of c) = (f, ps) /\
    all2 result_match (map result_of ps) (q_results c) = true /\
    fobs_match (frepr12 c) [q_ws c] f (q_final c) = true.
Proof. exact model_holds_sched. Qed.
Print Assumptions C12_model_holds.

(* non-vacuity: the empty project of the refutation witness satisfies the hypotheses of C12_init_race_safe
   for two actors initialising the same job (and the program used there is the race program) *)
Example C12_example :
  let specs := [{| r_tag := [97%N]; r_sp := wit_sp |}; {| r_tag := [98%N]; r_sp := wit_sp |}] in
  get wit_f0 wit_ws = Some Dir /\ NoDup (map r_tag specs) /\
  (forall s, In s specs -> pre_ok wit_repr wit_p WS [] wit_f0 s) /\
  map (rprog wit_repr wit_p WS []) specs = wit_progs true.
Proof.
  simpl. split; [reflexivity|]. split; [repeat constructor; simpl; intuition discriminate|]. split; [|reflexivity].
  intros s [<-|[<-|[]]]; apply pre_ok_fresh; intro r; destruct r as [|x [|y r]]; reflexivity.
Qed.
