(* C09 — state point corruption is always detected, never accepted, and repairable.
   Only statements; models are SV.Cache (lookups, Job.init, _StatePointDict.load) and SV.Repair (check, repair),
   proofs are in SV.C09Proofs.  The library oracles are Section variables of the models:
     frepr   : float.__repr__
     loads_s : bytes.decode() + json.loads(str)   (Project._get_statepoint_from_workspace: check, repair's lookup);
               None = UNDECODABLE: the decoder raised a ValueError (JSON or unicode) or — nested beyond the
               recursion limit — a RecursionError (reported like any undecodable text since fix: 178057f)
     loads_b : json.loads(bytes)                  (_StatePointDict.load: open by id, Job.init); outcomes DVal /
               DJsonErr / DRecErr (both reported as JobsCorruptedError) / DOtherErr (UnicodeDecodeError escapes)
   The repair theorems assume only that both decoders invert the file printer (loads (dumps v) = v) and that
   a value produced by the bytes decoder is also produced by the text decoder. *)
From SV Require Import Base Json MD5 Canon FS Ws Cache CacheLemmas Repair CorrC08 CorrC09 C08Proofs C09Proofs.

(* ---------------------------------------------------------------- check_exact
   check() reports exactly the listed directories whose file is missing, undecodable (incl. nested too deeply), or decodes to a value
   whose canonical hash differs from the directory name (valid f i = false), in listing order; it passes iff
   there is none.  Precondition: the listed names are directories. *)
Theorem C09_check_exact : forall frepr loads_s f ids,
  (forall i, In i ids -> isdir f (jdir i) = true) ->
  check_in frepr loads_s f ids =
    match filter (fun i => negb (valid frepr loads_s f i)) ids with [] => CkOk | l => CkCorrupt l end.
Proof. exact check_exact. Qed.
Print Assumptions C09_check_exact.

Theorem C09_invalid_means_missing_undecodable_or_rehashed : forall frepr loads_s f i,
  valid frepr loads_s f i = false <->
  (forall c, get f (spf i) <> Some (File c)) \/
  (exists c, get f (spf i) = Some (File c) /\
             (loads_s (c_bytes c) = None \/ exists v, loads_s (c_bytes c) = Some v /\ cid frepr v <> i)).
Proof. exact valid_false_iff. Qed.
Print Assumptions C09_invalid_means_missing_undecodable_or_rehashed.

(* ---------------------------------------------------------------- damage_detected_iff_value_changed
   For damaged bytes b in the file of job i (whose original value v0 hashes to i): the job is reported iff
   b is undecodable or decodes to a value with another id; a text that decodes to the same value up to key
   order is never reported (so every truncation, every value change incl. 1 -> 1.0 is caught exactly when
   the decoded value differs); a changed value can go unreported only through an MD5 collision of the two
   canonical texts (the named disjunct). *)
Theorem C09_damage_detected_iff_value_changed : forall frepr loads_s f ids i c v0,
  (forall j, In j ids -> isdir f (jdir j) = true) -> In i ids ->
  get f (spf i) = Some (File c) -> cid frepr v0 = i ->
  let reported := match check_in frepr loads_s f ids with CkCorrupt l => In i l | _ => False end in
  (reported <-> (loads_s (c_bytes c) = None \/ exists v, loads_s (c_bytes c) = Some v /\ cid frepr v <> i)) /\
  (forall v, loads_s (c_bytes c) = Some v -> norm v = norm v0 -> ~ reported) /\
  (forall v, loads_s (c_bytes c) = Some v -> ~ reported ->
     canon frepr v = canon frepr v0 \/
     (canon frepr v <> canon frepr v0 /\ md5_hex (canon frepr v) = md5_hex (canon frepr v0))).
Proof. exact damage_detected_iff_value_changed. Qed.
Print Assumptions C09_damage_detected_iff_value_changed.

(* ---------------------------------------------------------------- open_by_id_never_wrong
   In a session whose caches are sound, statepoint() of a job opened by id either raises or returns sp with
   calc_id sp = the (resolved) id.  No side condition.  (Before fix: ae33aa8 a missing file was accepted as
   data None for the directory name md5("null"); the Example C09_example_null_raises shows the present answer.) *)
Theorem C09_open_by_id_never_wrong : forall frepr loads_b f s i s' sp,
  Inv frepr f s -> open_sp_by_id frepr loads_b f s i = (s', Ok sp) ->
  exists m, (m = i \/ resolve_id f i = Ok m) /\ cid frepr sp = m.
Proof. exact open_by_id_never_wrong. Qed.
Print Assumptions C09_open_by_id_never_wrong.

(* ... and however often the state point is asked for through that ONE handle (a retry after the first access
   raised, an error handler printing job.sp): a failed access leaves the handle uninitialised, so the next access
   loads and validates again; every state point the handle ever shows hashes to the (resolved) id *)
Theorem C09_open_by_id_repeated_never_wrong : forall frepr loads_b n f s i s' l sp,
  Inv frepr f s -> open_sp_rep frepr loads_b n f s i = (s', l) -> In (Ok sp) l ->
  exists m, (m = i \/ resolve_id f i = Ok m) /\ cid frepr sp = m.
Proof. exact open_sp_rep_never_wrong. Qed.
Print Assumptions C09_open_by_id_repeated_never_wrong.

(* ... also when the persistent cache is (re)built AFTER the damage: update_cache() validates every state point it
   reads from the workspace, so whatever it returns or raises the cache file stays sound, and a fresh session
   opening by id afterwards raises or returns a state point hashing to the id *)
Theorem C09_update_cache_then_open_never_wrong : forall frepr loads_s loads_b f s f' s' r i s'' sp,
  Inv frepr f s -> update_cache frepr loads_s f s = (f', s', r) ->
  open_sp_by_id frepr loads_b f' fresh i = (s'', Ok sp) ->
  exists m, (m = i \/ resolve_id f' i = Ok m) /\ cid frepr sp = m.
Proof. exact update_cache_then_open_never_wrong. Qed.
Print Assumptions C09_update_cache_then_open_never_wrong.

(* ---------------------------------------------------------------- repair_restores
   After repair() — for EVERY outcome; the loop is no longer left by an exception (fix: bdc03b3) — every damaged
   job whose state point is in the sound cache validates (C09_repair_restores_cached: full for this class);
   a misnamed directory with intact file and free target is moved and validates, stated from the moment the
   loop reaches it (_misnamed_partial: the part of the history before that moment is not covered).
   Standing hypotheses: no directory is named like a state point file or its temp file (NoSpDirs); the
   workspace directory exists; the decoders invert the printer and agree on values. *)
Theorem C09_repair_restores_cached : forall frepr loads_s loads_b,
  (forall v, loads_s (dumps frepr v) = Some v) -> (forall v, loads_b (dumps frepr v) = DVal v) ->
  (forall b v, loads_b b = DVal v -> loads_s b = Some v) ->
  forall f s ids f' s' r i c sp,
  NoDup ids -> In i ids ->
  get f [WS] = Some Dir -> NoSpDirs f -> get f (jdir i) = Some Dir ->
  cache_file f = Some c -> In (i, sp) c -> (forall v, In (i, v) c -> cid frepr v = i /\ is_objb v = true) ->
  repair_in frepr loads_s loads_b f s ids = (f', s', r) ->
  valid frepr loads_s f' i = true.
Proof. exact repair_restores_cached. Qed.
Print Assumptions C09_repair_restores_cached.

Theorem C09_repair_restores_misnamed_partial : forall frepr loads_s loads_b,
  (forall v, loads_s (dumps frepr v) = Some v) ->
  (forall b v, loads_b b = DVal v -> loads_s b = Some v) ->
  forall rest f s corrupted f' s' r j c v t,
  WsOk f -> get f (jdir j) = Some Dir ->
  alookup j (s_cache (ensure_read f s)) = None ->
  get f (spf j) = Some (File c) -> loads_b (c_bytes c) = DVal v -> is_objb v = true ->
  cid frepr v = t -> t <> j ->
  (get f (jdir t) = None \/ get f (jdir t) = Some Dir) -> has_children f (jdir t) = false ->
  ~ In t rest ->
  repair_loop frepr loads_s loads_b f s (j :: rest) corrupted = (f', s', r) ->
  valid frepr loads_s f' t = true.
Proof. exact loop_restores_misnamed_partial. Qed.
Print Assumptions C09_repair_restores_misnamed_partial.

(* a job that validates is never damaged by the rest of the loop *)
Theorem C09_repair_keeps_valid : forall frepr loads_s loads_b,
  (forall v, loads_s (dumps frepr v) = Some v) ->
  forall ids f s corrupted f' s' r i,
  ~ In i ids -> WsOk f -> valid frepr loads_s f i = true ->
  repair_loop frepr loads_s loads_b f s ids corrupted = (f', s', r) -> valid frepr loads_s f' i = true.
Proof. intros frepr loads_s loads_b H. exact (loop_keeps_valid frepr loads_s loads_b H). Qed.
Print Assumptions C09_repair_keeps_valid.

(* ---------------------------------------------------------------- repair_frame
   repair() changes nothing outside the workspace, and inside it every file other than state point files
   (and the JSON backend's temp name) keeps its bytes and its path relative to its job directory; only the
   job directory's NAME may change.  No side condition: holds for every outcome, including the aborts. *)
Theorem C09_repair_frame : forall frepr loads_s loads_b f s ids f' s' r,
  repair_in frepr loads_s loads_b f s ids = (f', s', r) -> frame f f'.
Proof. exact repair_frame. Qed.
Print Assumptions C09_repair_frame.

(* ---------------------------------------------------------------- never accepted: the session after repair
   repair() preserves cache soundness (Inv of C08: every entry of _sp_cache and of the cache file hashes to its
   key), whatever its outcome: the lookup with validate=False is no longer stored (fix: 3837846).  Together with
   the C08 invariants no later open by id, find_jobs or update_cache can serve a foreign state point. *)
Theorem C09_repair_cache_sound : forall frepr loads_s loads_b f s ids f' s' r,
  Inv frepr f s -> repair_in frepr loads_s loads_b f s ids = (f', s', r) -> Inv frepr f' s'.
Proof. exact repair_cache_sound. Qed.
Print Assumptions C09_repair_cache_sound.

(* ---------------------------------------------------------------- licence for the correspondence
   If the implementation agrees with the model on a case (mismatch_C09 c = false) whose listed names are
   directories, the first clause of the oracle — check() names exactly the jobs the independent classifier
   (decode table + model calc_id) calls damaged — holds on the implementation's answer.  The remaining clauses
   are licensed by the theorems above under their stated preconditions; they are not lifted to the boolean
   oracle. *)
Theorem C09_model_holds : forall c,
  (forall i, In i (c9_listing c) -> isdir (c9_fs c) (jdir i) = true) ->
  mismatch_C09 c = false ->
  ck_same (c9_check c) (expected_check c (c9_fs c) (c9_listing c)) = true.
Proof. exact model_holds_check. Qed.
Print Assumptions C09_model_holds.

(* ---------------------------------------------------------------- non-vacuity and the former defect witnesses
   the hypotheses of the restoration theorems are satisfiable on the witness project *)
Example C09_example_restores :
  WsOk w_fs1 /\ get w_fs1 (jdir w_x) = Some Dir /\ alookup w_x (s_cache (ensure_read w_fs1 fresh)) = None /\
  w_t <> w_x /\ ~ In w_t [w_a].
Proof. exact w_fs1_hyps. Qed.

(* job a truncated, directory x = intact file of job t: in both listing orders a is reported, t restored *)
Example C09_example_repair_continues :
  valid ex_fr w_ls w_fs1 w_t = false /\
  (exists f' s', repair_in ex_fr w_ls w_lb w_fs1 fresh [w_a; w_x] = (f', s', RCorrupt [w_a]) /\
                 valid ex_fr w_ls f' w_t = true) /\
  (exists f' s', repair_in ex_fr w_ls w_lb w_fs1 fresh [w_x; w_a] = (f', s', RCorrupt [w_a]) /\
                 valid ex_fr w_ls f' w_t = true).
Proof. exact ex_repair_continues. Qed.

Example C09_example_null_raises :
  exists s', open_sp_by_id ex_fr w_lb w_fs2 fresh w_null = (s', Err EJobsCorrupted).
Proof. exact ex_null_raises. Qed.

Example C09_example_no_poison :
  exists f' s', repair_in ex_fr w_ls w_lb w_fs3 fresh [w_x; w_a] = (f', s', RCorrupt [w_x]) /\
                alookup w_x (s_cache s') = None /\
                (exists s'', open_sp_by_id ex_fr w_lb f' s' w_x = (s'', Err EJobsCorrupted)).
Proof. exact ex_no_poison. Qed.
