(* C09 — placeholder while the correspondence is being built *)
From SV Require Import Base Json MD5 Canon FS Ws Cache Repair CorrC09.
