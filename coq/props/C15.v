(* C15 — sync options are honoured: dry-run writes nothing, deep, exclude, selection, parallel.
   Statements only; proofs in SV.SyncProofs / SyncDocProofs / SyncTopProofs / C15Proofs. *)
From SV Require Import C15Proofs SyncWitness.

(* ---------------------------------------------------------------- dry_run_no_change — FULL, for /repo as it is
   (cfg_current; the repairs 9f55003 F3, 6b3ddc7 F4, 7de64dd F16, e70794c have landed): a project-level dry run
   returns the destination project EQUAL to the input (files, directories, documents, mtimes) and ends with the
   exception class of the real run (None = returns).  The source is untouched by C13_sync_src_unchanged.
   [job_ok]: source job directories have distinct names at every level, documents have distinct keys, no stale
   "~" backup of the document in the source.  The former counterexamples are corpus/C15/w1, w2, w3, w6. *)
Theorem C15_dry_run_no_change : forall frepr o src dst,
  NoDup (map fst (p_ws src)) -> (forall kn, In kn (p_ws src) -> job_ok (snd kn)) ->
  wf (JObj (read_doc FN_PDOC (p_top src))) = true ->
  fst (sync_projects_m frepr cfg_current false (set_dry o true) src dst) = dst
  /\ snd (sync_projects_m frepr cfg_current false (set_dry o true) src dst)
     = snd (sync_projects_m frepr cfg_current false (set_dry o false) src dst).
Proof. exact dry_run_no_change_current. Qed.
Print Assumptions C15_dry_run_no_change.

(* the same at job level (Job.sync / sync_jobs) for an initialised destination job ... *)
Theorem C15_dry_run_no_change_job_level : forall frepr o deep fp sdir ddir dsp, job_ok (Dir sdir) ->
  fst (sync_jobs_m frepr cfg_current (set_dry o true) deep fp (Some sdir) (Some ddir) dsp) = Some ddir
  /\ snd (sync_jobs_m frepr cfg_current (set_dry o true) deep fp (Some sdir) (Some ddir) dsp)
     = snd (sync_jobs_m frepr cfg_current (set_dry o false) deep fp (Some sdir) (Some ddir) dsp).
Proof. exact dry_run_no_change_job_current. Qed.
Print Assumptions C15_dry_run_no_change_job_level.

(* ... and into an uninitialised one: it returns and creates nothing (not proved: that the real run returns too;
   checked by the companion run of every such correspondence case) *)
Theorem C15_dry_run_uninitialised_destination : forall frepr o deep sdir dsp,
  sync_jobs_m frepr cfg_current (set_dry o true) deep false (Some sdir) None dsp = (None, None).
Proof. exact dry_run_uninitialised_current. Qed.
Print Assumptions C15_dry_run_uninitialised_destination.

(* the "writes nothing" half also for the pooled variant (any set of jobs reached); since c3330a7 ByKey collects
   its conflicts per call, so the jobs of a pool no longer influence each other through the shared instance *)
Theorem C15_dry_run_no_change_pooled : forall frepr all o src dst,
  o_dry_run o = true -> docs_wf src -> fst (sync_projects_m frepr cfg_current all o src dst) = dst.
Proof. exact dry_run_pooled_current. Qed.
Print Assumptions C15_dry_run_no_change_pooled.

(* the file walk alone: copy() under dry_run never writes — it only raises (F3) *)
Theorem C15_dry_run_walk_writes_nothing : forall frepr cf fuel o deep sdir ddir subdir,
  o_dry_run o = true -> fix_F4 cf = true \/ o_recursive o = false ->
  fst (sync_ws frepr cf fuel o deep sdir ddir subdir) = ddir.
Proof. exact sync_ws_dry_id. Qed.
Print Assumptions C15_dry_run_walk_writes_nothing.

(* ---------------------------------------------------------------- deep_by_content
   FULL statement: with deep=True a file on both sides with different bytes is a conflict (strategy consulted /
   FileSyncConflict) whatever its size and mtime, at job and at project level.
   Job level (Job.sync, sync_jobs): true — the walk is C14_overwrite_iff_strategy / C14_no_strategy_conflict_*
   with deep := o_deep o, and under deep "differs" is "different bytes": *)
Theorem C15_deep_by_content_job_level : forall frepr cf o sid did dsp src dst c1 m1 c2 m2,
  run_sync frepr cf o (E_job sid did dsp) src dst =
    (let '(d', e) := sync_jobs_m frepr cf o (o_deep o) false (job_dir sid (p_ws src)) (job_dir did (p_ws dst)) dsp in
     ({| p_top := p_top dst;
         p_ws := match d' with Some x => aset did (Dir x) (p_ws dst) | None => p_ws dst end |}, e))
  /\ (file_same frepr true c1 m1 c2 m2 = false
      <-> bytes_eqb (content_bytes frepr c1) (content_bytes frepr c2) = false).
Proof. exact deep_by_content_job_level. Qed.
Print Assumptions C15_deep_by_content_job_level.

(* Project level — FULL for /repo as it is (repair 0ec1e88): sync_projects hands deep on to sync_jobs; the
   former counterexample is corpus/C15/w4 *)
Theorem C15_deep_by_content_project_level : forall o, proj_deep cfg_current o = o_deep o.
Proof. exact proj_deep_current. Qed.
Print Assumptions C15_deep_by_content_project_level.


(* ---------------------------------------------------------------- exclude_never_touched — FULL, for /repo as it is
   (cfg_current; repair 74ea1a0 hands the patterns to copytree): a file whose own name matches an exclude pattern —
   a user pattern, or at the top level of the job its own state point / document name ([at_path]: below the top
   level only the user's patterns count, C13_excluded_below_top_level) — is never created or modified by the file
   walk, at any depth, also inside directories that are copied as a whole, dry or real, whatever the outcome.  "Never created or
   modified": the node at the path is what it was (absent stays absent).  The one proviso is about kinds, not
   about files: if the path is a DIRECTORY on both sides it is walked like every common directory (directories are
   not matched against the patterns when they exist on both sides), so its node may change below.  The former
   counterexample is corpus/C15/w5. *)
Theorem C15_exclude_never_touched : forall frepr p fuel o deep sdir ddir subdir,
  wf_node (Dir sdir) = true ->
  p <> [] -> excluded cfg_current (at_path o p) (last p []) = true ->
  (forall es, lookup_path p (Dir ddir) <> Some (Dir es)) ->
  lookup_path p (Dir (fst (sync_ws frepr cfg_current fuel o deep sdir ddir subdir))) = lookup_path p (Dir ddir).
Proof. exact exclude_never_touched_current. Qed.
Print Assumptions C15_exclude_never_touched.

(* cloned jobs: a job that is created by the call contains nothing — file or directory, at any depth — that the
   patterns exclude (clone_excl_at): below the job directory whatever a user pattern matches, directly in it whatever a
   user pattern matches except the job's own state point and document (618e7cc: a nested file that merely carries one of
   the two names is excluded like any other) *)
Theorem C15_exclude_never_touched_clone : forall frepr o id sd ws p,
  o_dry_run o = false -> alookup id ws = None -> p <> [] -> clone_excl_at o p = true ->
  lookup_path (id :: p) (Dir (fst (clone_or_sync frepr cfg_current o (id, Dir sd) ws))) = None.
Proof. exact clone_excluded_absent. Qed.
Print Assumptions C15_exclude_never_touched_clone.

Theorem C15_dry_run_clone_creates_nothing : forall frepr o id sd ws,
  o_dry_run o = true -> alookup id ws = None -> clone_or_sync frepr cfg_current o (id, Dir sd) ws = (ws, None).
Proof. exact clone_dry_nothing. Qed.
Print Assumptions C15_dry_run_clone_creates_nothing.

(* ---------------------------------------------------------------- selection_respected (full) *)
Theorem C15_selection_respected : forall frepr cf all o src dst id,
  job_selected o id = false \/ alookup id (p_ws src) = None ->
  alookup id (p_ws (fst (sync_projects_m frepr cf all o src dst))) = alookup id (p_ws dst).
Proof. exact selection_respected. Qed.
Print Assumptions C15_selection_respected.

(* ---------------------------------------------------------------- parallel_eq_sequential (full, at job
   granularity): every order in which a pool can hand the jobs to _clone_or_sync succeeds iff the sequential loop
   does and yields the same workspace; a job's step reads and writes only its own workspace entry *)
Theorem C15_parallel_eq_sequential : forall frepr cf o jobs jobs' ws,
  NoDup (map fst jobs) -> Permutation.Permutation jobs jobs' ->
  snd (run_steps (clone_or_sync frepr cf o) jobs ws) = None ->
  snd (run_steps (clone_or_sync frepr cf o) jobs' ws) = None
  /\ forall id, alookup id (fst (run_steps (clone_or_sync frepr cf o) jobs' ws))
                = alookup id (fst (run_steps (clone_or_sync frepr cf o) jobs ws)).
Proof. exact parallel_eq_sequential. Qed.
Print Assumptions C15_parallel_eq_sequential.

Theorem C15_job_step_is_local : forall frepr cf o,
  frame_step (fun kn : str * node => fst kn) (clone_or_sync frepr cf o)
  /\ local_step (fun kn : str * node => fst kn) (clone_or_sync frepr cf o).
Proof. exact job_step_is_local. Qed.
Print Assumptions C15_job_step_is_local.

(* licence for the correspondence: the tree part of the dry-run clause of the oracle holds on what the model
   (/repo as it is) computes for a project-level dry run *)
Theorem C15_model_holds : forall frepr i,
  i_entry i = E_project -> o_dry_run (i_opts i) = true ->
  docs_wf (i_src i) -> wf_project (i_src i) = true -> wf_project (i_dst i) = true ->
  let c := model_case frepr cfg_current i in
  proj_eqb frepr (i_dst i) (ob_dst (c_obs c)) = true /\ proj_eqb frepr (i_src i) (ob_src (c_obs c)) = true
  /\ ob_rest_ok (c_obs c) = true.
Proof. exact model_holds_C15_current. Qed.
Print Assumptions C15_model_holds.

(* permission bits (observed next to the trees as SyncObs.perm_row; the model of the bits, perm_predicted, is derived
   from the executed tree model: a copy carries the source's bits, nothing else changes a bit).  In a dry run the model
   predicts "unchanged" for every row ... *)
Theorem C15_dry_run_keeps_permission_bits : forall i rows m r,
  o_dry_run (i_opts i) = true -> ob_dst m = i_dst i ->
  (pr_dst r = true -> forall c mt, file_at (pr_path r) (p_ws (i_dst i)) = Some (c, mt) -> mt <> NOW) ->
  (pr_dst r = true -> file_at (pr_path r) (p_ws (i_dst i)) = None -> pr_before r = PERM_DEFAULT) ->
  perm_predicted i rows m r = pr_before r.
Proof. exact perm_predicted_dry. Qed.
Print Assumptions C15_dry_run_keeps_permission_bits.

(* ... hence (licence for the correspondence) agreement of the implementation's bits with the model's on a
   project-level dry run gives the bits clause of the dry-run oracle on the implementation's observation.
   perm_rows_wf: the recorded mtimes precede the call (none is NOW) and a path without a file has the default bits.
   Job-level entry points are covered by the correspondence only (the tree part: C15_dry_run_no_change_job_level). *)
Theorem C15_model_holds_permission_bits : forall c,
  i_entry (c_in (cs_case c)) = E_project -> o_dry_run (i_opts (c_in (cs_case c))) = true ->
  i_unmodelled (c_in (cs_case c)) = false -> i_parallel (c_in (cs_case c)) = false ->
  docs_wf (i_src (c_in (cs_case c))) -> perm_rows_wf c ->
  perm_mismatch c = false -> perm_dry_ok c = true.
Proof. exact perm_model_holds_dry. Qed.
Print Assumptions C15_model_holds_permission_bits.

(* non-vacuity of the hypotheses, and the clause is not trivially true: on the project-level dry run wit_C15_w1 a
   source file with bits 0755 that keeps them agrees with the model and satisfies the clause; the same row with other
   bits afterwards disagrees with the model and violates the clause *)
Example C15_permission_bits_example :
  let mk := fun after => {| cs_ftab := []; cs_case := model_case nofl cfg_current wit_C15_w1;
                            cs_perm := [{| pr_dst := false; pr_path := [[120]%N]; pr_before := 493%N; pr_after := after |}] |} in
  (i_entry wit_C15_w1 = E_project /\ o_dry_run (i_opts wit_C15_w1) = true /\ i_unmodelled wit_C15_w1 = false
   /\ i_parallel wit_C15_w1 = false /\ perm_rows_wf (mk 493%N))
  /\ perm_mismatch (mk 493%N) = false /\ perm_dry_ok (mk 493%N) = true
  /\ perm_mismatch (mk 384%N) = true /\ perm_dry_ok (mk 384%N) = false.
Proof.
  cbv zeta. split.
  - do 4 (split; [vm_compute; reflexivity|]).
    intros r [<-|[]] Hd; discriminate Hd.
  - repeat split; vm_compute; reflexivity.
Qed.

(* non-vacuity: the six witnesses are well-formed inputs on which the repaired model satisfies the whole oracle *)
Example C15_example :
  forallb (fun i => holds_C15 nofl (model_case nofl cfg_current i) && wf_project (i_src i) && wf_project (i_dst i))
          [wit_C15_w1; wit_C15_w2; wit_C15_w3; wit_C15_w4; wit_C15_w5; wit_C15_w6] = true.
Proof. vm_compute. reflexivity. Qed.
