From SV Require Import Base Json Canon Sync SyncObs CorrC13 CorrC14 CorrC15 C13Proofs C15Proofs.

Theorem C15_placeholder : forall frepr cf o en src dst,
  ob_src (model_call frepr cf o en src dst) = src.
Proof. exact run_sync_src_untouched. Qed.
Print Assumptions C15_placeholder.
