(* C16 — export then import reproduces the project; nothing dropped, merged or misplaced.
   This file only states theorems; proofs live in SV.C16Proofs.  Model: SV.Export. *)
From Coq Require Import String Ascii.
From SV Require Import Base Json MD5 Canon Export CorrC16 C16Proofs.
Local Open Scope N_scope.

(* ---- "export rejects non-unique or leaf/node-conflicting paths".
   FULL STATEMENT (false of the faithful model, see the _refuted theorems below):
     forall o jobs p ds, export_paths o jobs p = ROk ds -> locs_unique ds = true /\ locs_prefix_free ds = true.
   PROVED: the same conclusion outside the three input classes F7 (no check at all for path=None/False),
   F15 (order dependent leaf/node check) and F20 (checks compare raw strings). *)
Theorem C16_accepted_paths_consistent_partial : forall o jobs p ds,
  export_paths o jobs p = ROk ds ->
  match p with PNone | PFalse => has_dup ds = false | _ => True end ->
  exists_pair raw_nested ds = false ->
  exists_pair f20_pair ds = false ->
  locs_unique ds = true /\ locs_prefix_free ds = true.
Proof. exact accepted_paths_consistent. Qed.
Print Assumptions C16_accepted_paths_consistent_partial.

Theorem C16_paths_checked_refuted_F7 :
  export_paths (orc f7_jobs) f7_jobs PNone = ROk [q "a/1"; q "a/1"]
  /\ (let e := export_model (orc f7_jobs) f7_jobs KDir PNone in
      eo_exn e = Some EOSError /\ art_empty (eo_art e) = false)
  /\ (let e := export_model (orc f7_jobs) f7_jobs KZip PNone in
      eo_exn e = None
      /\ (let i := import_model (orc f7_jobs) SchNone (eo_art e) (dst_init []) in
          io_exn i = None /\ fs_eqb (io_dst i) (expected_dst [] f7_jobs) = false
          /\ List.length (fs_children WS (io_dst i)) = 1%nat)).
Proof. exact f7_witness. Qed.
Print Assumptions C16_paths_checked_refuted_F7.

Theorem C16_paths_checked_refuted_F15 :
  check_dirs [] [q "a"; q "a/b"] = true /\ check_dirs [] [q "a/b"; q "a"] = false.
Proof. exact f15_witness. Qed.
Print Assumptions C16_paths_checked_refuted_F15.

Theorem C16_roundtrip_refuted_F6 :
  let o := orc f6_jobs in
  let e := export_model o f6_jobs KZip PNone in
  eo_exn e = None /\ eo_map e = [q "a/1"; q "a/10"; q "a/100"]
  /\ (let i := import_model o SchNone (eo_art e) (dst_init []) in
      io_exn i = None
      /\ fs_children WS (io_dst i) = [j_id j_a1; q "10"; q "100"]
      /\ contained (io_dst i) = false).
Proof. exact f6_witness. Qed.
Print Assumptions C16_roundtrip_refuted_F6.

Theorem C16_import_never_overwrites_refuted_zip :
  let o := orc (j_a1 :: f6o_jobs) in
  let e := export_model o f6o_jobs KZip f6o_spec in
  eo_exn e = None
  /\ (let i := import_model o SchNone (eo_art e) (dst_init [j_a1]) in
      io_exn i = None /\ pre_untouched [j_a1] (io_dst i) = false).
Proof. exact f6_overwrite_witness. Qed.
Print Assumptions C16_import_never_overwrites_refuted_zip.

Theorem C16_roundtrip_refuted_F18 :
  let o := orc [j_a1] in
  (let e := export_model o [j_a1] KZip PNone in
   eo_exn e = None /\ eo_map e = [[]]
   /\ let i := import_model o SchNone (eo_art e) (dst_init []) in io_exn i = None /\ io_dst i = dst_init [])
  /\ (let e := export_model o [j_a1] KTar PNone in
      eo_exn e = None
      /\ let i := import_model o SchNone (eo_art e) (dst_init []) in io_exn i = None /\ io_dst i = dst_init []).
Proof. exact f18_witness. Qed.
Print Assumptions C16_roundtrip_refuted_F18.

Theorem C16_export_contained_refuted_F19 :
  let js := [j_up; j_a2] in
  let e := export_model (orc js) js KDir PNone in
  eo_exn e = None /\ eo_map e = [q "../zz"; q "a/2"]
  /\ match eo_art e with ADir f => fs_isdir [q "t"; q "e"; q "zz"] f | _ => false end = true.
Proof. exact f19_witness. Qed.
Print Assumptions C16_export_contained_refuted_F19.

(* the job ids in the witnesses are the ids signac computes (Canon.calc_id, C01) *)
Theorem C16_witness_ids_genuine :
  List.map (fun j => job_id_of (orc []) (j_sp j)) [j_a1; j_a1s; j_a10; j_a100; j_a2; j_up]
  = List.map j_id [j_a1; j_a1s; j_a10; j_a100; j_a2; j_up].
Proof. exact witness_ids. Qed.
Print Assumptions C16_witness_ids_genuine.

(* ---- licence for the correspondence step (partial: source / uniqueness / leaf-node clauses) *)
Theorem C16_model_holds_partial : forall c,
  mismatch_C16 c = false -> cls_F7 c = false -> cls_F15 c = false -> cls_F20 c = false ->
  h_src c = true /\ h_unique c = true /\ h_leafnode c = true.
Proof. exact model_holds_paths. Qed.
Print Assumptions C16_model_holds_partial.
