(* C16 — export then import reproduces the project; nothing dropped, merged or misplaced.
   This file only states theorems; proofs live in SV.C16Proofs / C16Frame / C16Schema / C16Analyse.
   Model: SV.Export (export_model, import_model and their parts, written after signac/import_export.py). *)
From Coq Require Import String Ascii.
From SV Require Import Base Json MD5 Canon Export CorrC16 C16Paths C16Frame C16Zip C16Schema C16Analyse C16Proofs C16ExportFull.
Local Open Scope N_scope.

(* ====================================================================================================
   1.  "export rejects non-unique or leaf/node-conflicting paths"
       (repairs 55c0c50, fc0e7cc, 3dfa233, 3224fe9)
   FULL: whatever export_paths accepts - every path specification, every order of the jobs - is
   pairwise distinct and leaf/node consistent as locations below the target. *)
Theorem C16_accepted_paths_consistent : forall o jobs p ds,
  export_paths o jobs p = ROk ds -> locs_unique ds = true /\ locs_prefix_free ds = true.
Proof. exact accepted_paths_consistent. Qed.
Print Assumptions C16_accepted_paths_consistent.

(* the former F20' witnesses on the repaired model: the target itself next to another job is refused
   before anything is written ('.' and '' alike) for every target kind; a single job at 'a/../' (the
   target itself) makes an exact round trip; 'a/x/../y' next to 'a/x' is copied to 'a/y' and makes an
   exact round trip for every target kind while the returned mapping shows the paths as written *)
Theorem C16_repaired_F20 :
  (let o := orc root_jobs in
   export_paths o root_jobs root_spec = RExn ERuntimeError
   /\ export_paths o root_jobs (PCall [(j_id j_a1, ROk (q "r1")); (j_id j_a2, ROk [])]) = RExn ERuntimeError
   /\ (forall k, In k [KDir; KZip; KTar] ->
         let e := export_model o root_jobs k root_spec in eo_exn e = Some ERuntimeError /\ art_empty (eo_art e) = true)
   /\ (forall k, In k [KDir; KZip; KTar] ->
         let o1 := orc [j_a1] in
         let e := export_model o1 [j_a1] k (PCall [(j_id j_a1, ROk (q "a/../"))]) in
         eo_exn e = None /\ eo_map e = [q "a/../"]
         /\ let i := import_model o1 SchNone (eo_art e) (dst_init []) in
            io_exn i = None /\ fs_eqb (io_dst i) (expected_dst [] [j_a1]) = true))
  /\ (forall k, In k [KDir; KZip; KTar] ->
      let o := orc root_jobs in
      let e := export_model o root_jobs k lex_spec in
      eo_exn e = None /\ eo_map e = [q "a/x/../y"; q "a/x"]
      /\ let i := import_model o SchNone (eo_art e) (dst_init []) in
         io_exn i = None /\ fs_eqb (io_dst i) (expected_dst [] root_jobs) = true).
Proof. exact (conj root_repaired lex_repaired). Qed.
Print Assumptions C16_repaired_F20.

(* the former counterexamples on the repaired model: refused before anything is written (F7, F19),
   rejected in both orders (F15) *)
Theorem C16_repaired_F7_F15_F19 :
  (export_paths (orc f7_jobs) f7_jobs PNone = RExn ERuntimeError
   /\ (let e := export_model (orc f7_jobs) f7_jobs KDir PNone in
       eo_exn e = Some ERuntimeError /\ art_empty (eo_art e) = true)
   /\ (let e := export_model (orc f7_jobs) f7_jobs KZip PNone in
       eo_exn e = Some ERuntimeError /\ art_empty (eo_art e) = true))
  /\ (check_dirs [q "a"; q "a/b"] = false /\ check_dirs [q "a/b"; q "a"] = false
      /\ check_dirs [q "a/c"; q "a/b"] = true)
  /\ (let js := [j_up; j_a2] in
      let e := export_model (orc js) js KDir PNone in
      eo_exn e = Some ERuntimeError /\ art_empty (eo_art e) = true).
Proof. exact (conj f7_repaired (conj f15_repaired f19_repaired)). Qed.
Print Assumptions C16_repaired_F7_F15_F19.

(* ====================================================================================================
   2.  the round trip.
   FULL STATEMENT (no counterexample is known any more; all former ones are repaired):
     forall o jobs k p, let e := export_model o jobs k p in eo_exn e = None ->
       let i := import_model o SchNone (eo_art e) (dst_init []) in
       io_exn i = None /\ fs_eqb (io_dst i) (expected_dst [] jobs) = true.
   PROVED (partial): "which archive directory becomes which job" is exact for zip and tar archives
   whenever no job root lies in or below another job root (whole path components for zip since
   56f80f6 - the string-prefix hypothesis is gone; iterated dirname for tar), no other archive
   directory is recognised by the schema function (since a52f9e0 the candidate directories include
   the empty directories themselves: they fall under "no other directory is recognised"), and the
   ids are new and distinct.  For the copy step of the zip importer two general facts are proved:
   a file member never overwrites anything outside its new job directory (theorem 4) and a
   directory member becomes a directory at the right place (C16_zip_dir_member_created).  The rest of
   the file-level copy and the directory crawl are covered by the correspondence only. *)
Theorem C16_export_import_roundtrip_partial_zip_mapping :
  forall o sch ms dst0 (roots : list (str * json)) names,
  (forall r r', In r (List.map fst roots) -> In r' (List.map fst roots) -> zip_under r r' = true -> r = r') ->
  NoDup (List.map fst roots) ->
  (forall r sp, In (r, sp) roots -> arch_schema_fn o sch (zip_read_sp o ms) r = ROk (Some sp)) ->
  (forall x, ~ In x (List.map fst roots) -> arch_schema_fn o sch (zip_read_sp o ms) x = ROk None) ->
  (forall r sp, In (r, sp) roots -> fs_exists (job_dir (job_id_of o sp)) dst0 = false) ->
  NoDup (List.map (fun r => job_id_of o (snd r)) roots) ->
  NoDup names ->
  analyse o (arch_schema_fn o sch (zip_read_sp o ms)) (fun name skip => existsb (zip_under name) skip) false names dst0
  = ROk (expected_maps o roots names).
Proof. exact zip_mapping_exact. Qed.
Print Assumptions C16_export_import_roundtrip_partial_zip_mapping.

(* [zip_under r r'] for r <> r' and r' <> '' means: the components of r' are a proper prefix of those of r *)
Theorem C16_zip_under_is_component_prefix : forall r r',
  zip_under r r' = true -> r' = [] \/ is_prefix (split 47 r') (split 47 r) = true.
Proof. exact zip_under_components. Qed.
Print Assumptions C16_zip_under_is_component_prefix.

(* a52f9e0: a member whose name ends with '/' (an empty directory) is recreated as a directory at
   job directory ++ (its path relative to the job root), and the step only adds entries *)
Theorem C16_zip_dir_member_created : forall ms root id d name d',
  is_job_id id = true ->
  zip_under name root = true -> str_eqb name root = false ->
  no_dotdot (split 47 name) = true -> starts_slash name = false ->
  ends_slash name = true ->
  zip_copy_one ms root id d name = ROk d' ->
  exists Y, relpath name root = ROk (rel_text Y) /\ Forall comp_ok Y
            /\ fs_get (job_dir id ++ Y) d' = Some None
            /\ only_adds d d'.
Proof. exact zip_dir_member_created. Qed.
Print Assumptions C16_zip_dir_member_created.

(* the former F21 witnesses: empty directories next to files, below a directory with files, a directory
   that only contains an empty directory, a chain of empty directories - identical file trees after the
   round trip through zip (both listing orders), tar and a directory; and a root job made of nothing
   but nested empty directories *)
Theorem C16_repaired_F21 :
  (forall k, In k [KZip; KTar; KDir] ->
     let o := orc f21_jobs in
     let e := export_model o f21_jobs k PNone in
     eo_exn e = None
     /\ (let i := import_model o SchNone (eo_art e) (dst_init []) in
         io_exn i = None /\ fs_eqb (io_dst i) (expected_dst [] f21_jobs) = true))
  /\ (let o := orc_desc f21_jobs in
      let e := export_model o f21_jobs KZip PNone in
      eo_exn e = None
      /\ (let i := import_model o SchNone (eo_art e) (dst_init []) in
          io_exn i = None /\ fs_eqb (io_dst i) (expected_dst [] f21_jobs) = true))
  /\ (let j := mkjob "42b7b4f2921788ea14dac5566e6f06d0" (sp_a (JInt 1)) "{""a"": 1}" [([q "only"], None); ([q "only"; q "inner"], None)] in
      let o := orc [j] in
      let e := export_model o [j] KZip PNone in
      eo_art e = AZip [(FN_SP, q "{""a"": 1}"); (q "only/inner/", [])]
      /\ (let i := import_model o SchNone (eo_art e) (dst_init []) in
          io_exn i = None /\ fs_eqb (io_dst i) (expected_dst [] [j]) = true)).
Proof. exact f21_repaired. Qed.
Print Assumptions C16_repaired_F21.

Theorem C16_export_import_roundtrip_partial_tar_mapping :
  forall o sch ms dst0 (roots : list (str * json)) names,
  (forall r r' n, In r (List.map fst roots) -> In r' (List.map fst roots) -> Nat.iter (Datatypes.S n) dirname r <> r') ->
  NoDup (List.map fst roots) ->
  (forall r sp, In (r, sp) roots -> arch_schema_fn o sch (tar_read_sp o ms) r = ROk (Some sp)) ->
  (forall x, ~ In x (List.map fst roots) -> arch_schema_fn o sch (tar_read_sp o ms) x = ROk None) ->
  (forall r sp, In (r, sp) roots -> fs_exists (job_dir (job_id_of o sp)) dst0 = false) ->
  NoDup (List.map (fun r => job_id_of o (snd r)) roots) ->
  NoDup names ->
  analyse o (arch_schema_fn o sch (tar_read_sp o ms)) (fun name skip => str_mem (dirname name) skip) true names dst0
  = ROk (expected_maps o roots names).
Proof. exact tar_mapping_exact. Qed.
Print Assumptions C16_export_import_roundtrip_partial_tar_mapping.

(* the former counterexamples F6 (a = 1, 10, 100 through a zip archive) and F18 (a single job through
   a zip / tar archive) now make an exact round trip in the model, and the former overwrite
   scenario leaves the existing job alone *)
Theorem C16_repaired_F6_F18 :
  (let o := orc f6_jobs in
   let e := export_model o f6_jobs KZip PNone in
   eo_exn e = None /\ eo_map e = [q "a/1"; q "a/10"; q "a/100"]
   /\ (let i := import_model o SchNone (eo_art e) (dst_init []) in
       io_exn i = None /\ fs_eqb (io_dst i) (expected_dst [] f6_jobs) = true))
  /\ (let o := orc (j_a1 :: f6o_jobs) in
      let e := export_model o f6o_jobs KZip f6o_spec in
      eo_exn e = None
      /\ (let i := import_model o SchNone (eo_art e) (dst_init [j_a1]) in
          io_exn i = None /\ pre_untouched [j_a1] (io_dst i) = true
          /\ fs_eqb (io_dst i) (expected_dst [j_a1] f6o_jobs) = true))
  /\ (let o := orc [j_a1] in
      (let e := export_model o [j_a1] KZip PNone in
       eo_exn e = None /\ eo_map e = [[]]
       /\ let i := import_model o SchNone (eo_art e) (dst_init []) in
          io_exn i = None /\ fs_eqb (io_dst i) (expected_dst [] [j_a1]) = true)
      /\ (let e := export_model o [j_a1] KTar PNone in
          eo_exn e = None
          /\ let i := import_model o SchNone (eo_art e) (dst_init []) in
             io_exn i = None /\ fs_eqb (io_dst i) (expected_dst [] [j_a1]) = true)).
Proof. exact (conj f6_repaired (conj f6_overwrite_repaired f18_repaired)). Qed.
Print Assumptions C16_repaired_F6_F18.

(* ====================================================================================================
   3.  export leaves the source unchanged and writes only beneath its target.
   The directory writer is run on an ARBITRARY initial file system f (it may contain the source
   project); [export_frame f g]: every path not below the target is unchanged, or is a missing parent
   directory of the target that has been created.
   FULL (since 3dfa233 / 3224fe9 / 54a5f4b): for every project, every path specification that
   export_paths accepts and every initial file system.  The proof shows that each accepted,
   normalised destination is [dst_safe] (C16_accepted_dst_safe: its normal form is '', '.' or a
   '/'-join of clean components, so every path os.makedirs / copytree visits lies in the target or
   is one of its parents).  The zip / tar writers of the model write no file system at all (their
   artefact is the member list), so containment is by construction there. *)
Theorem C16_export_contained : forall o jobs p ds f,
  export_paths o jobs p = ROk ds ->
  export_frame f (p_val (fold_partial2 (export_dir_step (o_rel o)) (combine jobs (List.map norm_dst ds)) f)).
Proof. exact export_contained_full. Qed.
Print Assumptions C16_export_contained.

Theorem C16_export_src_unchanged : forall o jobs p ds f q n,
  export_paths o jobs p = ROk ds ->
  is_prefix TARGET q = false -> fs_get q f = Some n ->
  fs_get q (p_val (fold_partial2 (export_dir_step (o_rel o)) (combine jobs (List.map norm_dst ds)) f)) = Some n.
Proof. exact export_src_unchanged_full. Qed.
Print Assumptions C16_export_src_unchanged.

Theorem C16_accepted_dst_safe : forall o jobs p ds,
  export_paths o jobs p = ROk ds -> forallb dst_safe (List.map norm_dst ds) = true.
Proof. exact accepted_dst_safe. Qed.
Print Assumptions C16_accepted_dst_safe.

(* ====================================================================================================
   4.  import never overwrites an existing job and never writes outside job directories.
   Directory and tar origins: for EVERY schema (None, string, callable), every archive content and
   every state of the importing project, nothing at or below an existing job directory changes, and
   every change lies in the directory of a well-formed job id.
   Zip origins (since 56f80f6): every file and directory of an existing job is still there with the
   same content, for every schema and project state and every archive whose member names have no
   '..' component (what ZipInfo.from_file writes for the paths export accepts). *)
Theorem C16_import_never_overwrites_dir_tar : forall o sch a d0,
  (match a with AZip _ => False | _ => True end) ->
  forall id p, fs_exists (job_dir id) d0 = true -> is_prefix (job_dir id) p = true ->
  fs_get p (io_dst (import_model o sch a d0)) = fs_get p d0.
Proof. exact import_never_overwrites_dir_tar. Qed.
Print Assumptions C16_import_never_overwrites_dir_tar.

Theorem C16_import_never_overwrites_zip : forall o sch ms d0,
  forallb (fun n => no_dotdot (split 47 n)) (List.map fst ms) = true ->
  forall id0 p n, fs_exists (job_dir id0) d0 = true -> is_prefix (job_dir id0) p = true ->
  fs_get p d0 = Some n -> fs_get p (io_dst (import_model o sch (AZip ms) d0)) = Some n.
Proof. exact import_zip_never_overwrites. Qed.
Print Assumptions C16_import_never_overwrites_zip.

Theorem C16_import_contained_partial : forall o sch a d0,
  (match a with AZip _ => False | _ => True end) ->
  forall p, fs_get p (io_dst (import_model o sch a d0)) <> fs_get p d0 ->
  (p = WS /\ fs_get p d0 = None) \/ exists id, is_job_id id = true /\ is_prefix (job_dir id) p = true.
Proof. exact import_contained_dir_tar. Qed.
Print Assumptions C16_import_contained_partial.

(* ====================================================================================================
   5.  a schema string parses back the path layout it describes (word-like strings, integers,
   booleans; plain decimals under the two library facts stated in [vt_float]: repr() wrote
   sign? digits '.' digits and float() reads it back).
   Layout: "lit{key:type}lit{key:type}..." with flat, distinct keys; every literal but the first
   starts with '/'.  (Nested keys, and literals that do not start with '/', are covered by the
   correspondence only.) *)
Theorem C16_schema_string_roundtrip : forall o its,
  items_ok o true its ->
  Forall flat_key (List.map it_key its) -> NoDup (List.map it_key its) ->
  parse_path (fields_of its) (layout_text (fields_of its) (texts_of its)) = ROk (Some (sp_of its)).
Proof. exact schema_string_roundtrip. Qed.
Print Assumptions C16_schema_string_roundtrip.

(* the path in that theorem is the path export writes for the corresponding format string ... *)
Theorem C16_schema_parses_exported_path : forall o jobs j its,
  items_ok o true its ->
  Forall flat_key (List.map it_key its) -> NoDup (List.map it_key its) ->
  Forall (fun i => has_brace (it_lit i) = false) its ->
  Forall (fun i => get_path (j_sp j) [it_key i] = Some (it_val i)) its ->
  exists path, fmt_path o jobs (segs_of its) j = ROk path
               /\ parse_path (fields_of its) path = ROk (Some (sp_of its)).
Proof. exact schema_parses_exported_path. Qed.
Print Assumptions C16_schema_parses_exported_path.

(* ... and the fields are what _convert_schema_path_to_regex reads out of the schema string *)
Theorem C16_schema_compile_text : forall its,
  Forall (fun i => has_brace (it_lit i) = false /\ it_key i <> [] /\ forallb is_keych (it_key i) = true) its ->
  Forall (fun i => forallb lit_safe (it_lit i) = true) its ->
  NoDup (List.map it_key its) ->
  Forall (fun i => match it_key i with c :: _ => is_digit c = false | [] => False end) its ->
  schema_compile (schema_text its) = ROk (fields_of its).
Proof. exact schema_compile_text. Qed.
Print Assumptions C16_schema_compile_text.

(* ====================================================================================================
   6.  the witnesses use genuine job ids (Canon.calc_id, C01) *)
Theorem C16_witness_ids_genuine :
  List.map (fun j => job_id_of (orc []) (j_sp j)) [j_a1; j_a1s; j_a10; j_a100; j_a2; j_up]
  = List.map j_id [j_a1; j_a1s; j_a10; j_a100; j_a2; j_up].
Proof. exact witness_ids. Qed.
Print Assumptions C16_witness_ids_genuine.

(* ====================================================================================================
   7.  licence for the correspondence step.
   FULL STATEMENT: mismatch_C16 c = false -> holds_C16 c = true.
   PROVED (partial): the source / uniqueness / leaf-node clauses, now without any side condition.  The
   export-containment, no-overwrite and import-containment clauses follow from theorems 3 and 4 at
   the level of fs_get (the oracle compares sorted listings); the round-trip clause rests on the
   correspondence. *)
Theorem C16_model_holds_partial : forall c,
  mismatch_C16 c = false ->
  h_src c = true /\ h_unique c = true /\ h_leafnode c = true.
Proof. exact model_holds_paths. Qed.
Print Assumptions C16_model_holds_partial.

(* ... and, for zip / tar targets, the "raised => nothing was written" and "nothing outside the target"
   clauses (the archive writers of the model cannot fail after the path stage) *)
Theorem C16_model_holds_archive_partial : forall c,
  mismatch_C16 c = false -> c_kind c <> KDir ->
  h_raise_clean c = true /\ h_export_contained c = true.
Proof. exact model_holds_archive. Qed.
Print Assumptions C16_model_holds_archive_partial.

(* ====================================================================================================
   non-vacuity: the hypotheses above are satisfiable by concrete, non-trivial inputs *)
Example C16_example_dst_safe :
  dst_safe (q "a/1") = true /\ dst_safe (q "k/p/a/x y") = true /\ dst_safe (q "../zz") = false /\ dst_safe (q "a/../..") = false.
Proof. exact dst_safe_examples. Qed.

Example C16_example_items : items_ok (orc []) true ex_items.
Proof. exact ex_items_ok. Qed.

Example C16_example_schema :
  schema_text ex_items = q "a/{a:int}/b/{b:str}/c/{c:bool}"
  /\ schema_compile (q "a/{a:int}/b/{b:str}/c/{c:bool}") = ROk (fields_of ex_items)
  /\ parse_path (fields_of ex_items) (q "a/-10/b/x_1/c/True") = ROk (Some (sp_of ex_items))
  /\ parse_path (fields_of ex_items) (q "a/-10/b/x 1/c/True") = ROk None.
Proof. exact schema_example. Qed.

(* a relative one-component directory target and a job whose path is the target itself: _mkdir_p('')
   raises before anything is created (original behaviour, allowed by C16); other paths are unaffected *)
Example C16_example_relative_target :
  let o := {| o_asc := true; o_frepr := []; o_text := []; o_parse := o_parse (orc [j_a1]); o_rel := true; o_origin := [] |} in
  (let e := export_model o [j_a1] KDir PNone in eo_exn e = Some EOSError /\ art_empty (eo_art e) = true)
  /\ (let e := export_model o root_jobs KDir PNone in eo_exn e = None /\ eo_map e = [q "a/1"; q "a/2"]).
Proof. exact rel_target_example. Qed.

(* a job that holds a nested signac project (state point files three levels down) and a bare
   x/y/signac_statepoint.json: nothing below a recognised job becomes a job of its own, for every kind *)
Example C16_example_nested_project :
  forall k, In k [KDir; KZip; KTar] ->
  let e := export_model orc_nest [j_nest; j_a2] k PNone in
  eo_exn e = None
  /\ let i := import_model orc_nest SchNone (eo_art e) (dst_init []) in
     io_exn i = None /\ fs_eqb (io_dst i) (expected_dst [] [j_nest; j_a2]) = true
     /\ List.length (fs_children WS (io_dst i)) = 2%nat.
Proof. exact nested_project_example. Qed.

(* ':bool' fields read text exactly as _convert_bool does *)
Example C16_example_bool_spellings :
  List.map conv_bool [q "True"; q "true"; q "TRUE"; q "tRuE"; q "1"; q "yes"; q "no"; q "f"; q "00"]
  = [true; true; true; true; true; true; true; true; true]
  /\ List.map conv_bool [q "False"; q "false"; q "FALSE"; q "fAlSe"; q "0"] = [false; false; false; false; false].
Proof. exact conv_bool_spellings. Qed.

Example C16_example_mapping :
  let o := orc [j_a1; j_a2] in
  let e := export_model o [j_a1; j_a2] KZip PNone in
  match eo_art e with
  | AZip ms =>
      let names := ssort true (sdedup (List.map dirname (List.map fst ms))) in
      names = [q "a/1"; q "a/2"]
      /\ analyse o (arch_schema_fn o SchNone (zip_read_sp o ms)) (fun name skip => existsb (zip_under name) skip) false names (dst_init [])
         = ROk (expected_maps o ex_roots names)
      /\ fs_eqb (io_dst (import_model o SchNone (eo_art e) (dst_init []))) (expected_dst [] [j_a1; j_a2]) = true
  | _ => False
  end.
Proof. exact mapping_example. Qed.
