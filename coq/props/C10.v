(* C10 — documents and the state point cache file are replaced atomically.
   This file only states theorems; proofs live in SV.C10Proofs.  The model is SV.Atomic:
   names |-> inodes |-> bytes, writers as step lists, crash = torn prefix, schedule = merge with a reader. *)
From SV Require Import Base Atomic CorrC10 C10Proofs.

(* For EVERY prefix of the writer's steps, the last append cut anywhere: reading the target gives the old or
   the new contents, and no name other than the temp file is affected (so the only possible extra file is tmp). *)
Theorem C10_atomic_prefix_safe : forall fs tmp target chunks q,
  wf_afs fs -> tmp <> target ->
  torn_prefix (atomic_write tmp target chunks) q ->
  let fs' := w_fs (wrun (start fs) q) in
  (read_name fs' target = read_name fs target \/ read_name fs' target = Some (concat chunks)) /\
  (forall n, n <> tmp -> n <> target -> read_name fs' n = read_name fs n).
Proof. exact atomic_prefix_safe. Qed.
Print Assumptions C10_atomic_prefix_safe.

(* the complete write: new contents, temp file gone *)
Theorem C10_atomic_complete : forall fs tmp target chunks,
  wf_afs fs -> tmp <> target ->
  let st := wrun (start fs) (atomic_write tmp target chunks) in
  read_name (w_fs st) target = Some (concat chunks) /\ dent (w_fs st) tmp = None /\
  (forall n, n <> tmp -> n <> target -> read_name (w_fs st) n = read_name fs n).
Proof. exact atomic_complete. Qed.
Print Assumptions C10_atomic_complete.

(* For EVERY interleaving of one reader [open; read k1; ...; read kn; close] with one atomic writer: either the
   reader found no file (only if there was none before), or there is ONE content d, the old or the new one, such
   that what the reader has obtained so far is what the same reads return on a file that constantly holds d. *)
Theorem C10_atomic_reader_safe : forall sched fs tmp target chunks ks,
  wf_afs fs -> tmp <> target ->
  let '(_, r, rp) := irun sched (start fs) (atomic_write tmp target chunks) rstart (reader target ks) in
  (r_enoent r = true /\ r_got r = [] /\ read_name fs target = None) \/
  (r_enoent r = false /\
   exists d done rest,
     ks = done ++ rest /\ (read_name fs target = Some d \/ d = concat chunks) /\
     r_got r = firstn (sum done) d /\ (rp = [] -> rest = [])).
Proof. exact atomic_reader_safe. Qed.
Print Assumptions C10_atomic_reader_safe.

(* ... hence a reader that runs to its end and asks for enough bytes obtains exactly old or exactly new *)
Theorem C10_atomic_reader_exact : forall sched fs tmp target chunks ks,
  wf_afs fs -> tmp <> target ->
  length ks + 2 <= length (filter negb sched) ->
  (forall d, read_name fs target = Some d -> length d <= sum ks) -> length (concat chunks) <= sum ks ->
  let '(_, r, _) := irun sched (start fs) (atomic_write tmp target chunks) rstart (reader target ks) in
  (r_enoent r = true /\ read_name fs target = None) \/
  read_name fs target = Some (r_got r) \/ r_got r = concat chunks.
Proof. exact atomic_reader_exact. Qed.
Print Assumptions C10_atomic_reader_exact.

(* Why write_concern matters when thread support is off: the in-place protocol has a crash prefix with an
   empty target, one with a torn target, and a schedule in which a reader obtains the empty file. *)
Theorem C10_direct_write_refuted :
  exists fs target chunks q,
    wf_afs fs /\ torn_prefix (direct_write target chunks) q /\
    let got := read_name (w_fs (wrun (start fs) q)) target in
    got = Some [] /\ got <> read_name fs target /\ got <> Some (concat chunks).
Proof. exact direct_write_refuted. Qed.
Print Assumptions C10_direct_write_refuted.

Theorem C10_direct_write_torn_refuted :
  exists fs target chunks q,
    wf_afs fs /\ torn_prefix (direct_write target chunks) q /\
    read_name (w_fs (wrun (start fs) q)) target = Some [2%N].
Proof. exact direct_write_torn. Qed.
Print Assumptions C10_direct_write_torn_refuted.

Theorem C10_direct_write_reader_refuted :
  exists fs target chunks sched ks,
    wf_afs fs /\
    let '(_, r, rp) := irun sched (start fs) (direct_write target chunks) rstart (reader target ks) in
    rp = [] /\ r_enoent r = false /\ r_got r = [] /\ read_name fs target = Some [1%N] /\ concat chunks = [2%N; 3%N].
Proof. exact direct_write_reader_refuted. Qed.
Print Assumptions C10_direct_write_reader_refuted.

(* Project.update_cache: the same two statements for the stream into cache~ followed by os.replace *)
Theorem C10_cache_write_safe : forall fs tmp target chunks q,
  wf_afs fs -> tmp <> target ->
  torn_prefix (cache_write tmp target chunks) q ->
  let fs' := w_fs (wrun (start fs) q) in
  (read_name fs' target = read_name fs target \/ read_name fs' target = Some (concat chunks)) /\
  (forall n, n <> tmp -> n <> target -> read_name fs' n = read_name fs n).
Proof. exact cache_write_prefix_safe. Qed.
Print Assumptions C10_cache_write_safe.

Theorem C10_cache_write_reader_safe : forall sched fs tmp target chunks ks,
  wf_afs fs -> tmp <> target ->
  let '(_, r, rp) := irun sched (start fs) (cache_write tmp target chunks) rstart (reader target ks) in
  (r_enoent r = true /\ r_got r = [] /\ read_name fs target = None) \/
  (r_enoent r = false /\
   exists d done rest,
     ks = done ++ rest /\ (read_name fs target = Some d \/ d = concat chunks) /\
     r_got r = firstn (sum done) d /\ (rp = [] -> rest = [])).
Proof. exact cache_write_reader_safe. Qed.
Print Assumptions C10_cache_write_reader_safe.

(* OSError while streaming: whatever part of the try body ran and whatever the `with` block still wrote to the
   temp file while unwinding, after the handler the target is untouched, the temp file is gone, nothing else moved *)
Theorem C10_cache_cleanup : forall fs tmp target chunks k extra,
  wf_afs fs -> tmp <> target -> Forall (tmpstep tmp) extra ->
  let fs' := w_fs (wrun (start fs) (firstn k (cache_try_body tmp chunks) ++ extra ++ [WUnlink tmp])) in
  read_name fs' target = read_name fs target /\ read_name fs' tmp = None /\
  (forall n, n <> tmp -> read_name fs' n = read_name fs n).
Proof. exact cache_cleanup. Qed.
Print Assumptions C10_cache_cleanup.

(* Known finding C10 tag 1 (unchanged code): Job.sync(..., doc_sync=DocSync.COPY) copies the destination job document
   as an ordinary file (shutil.copy) and the roll-back after a raising doc_sync restores it with shutil.copy2: both
   are the model's in-place protocol, for which the direct_write refutations above apply ... *)
Theorem C10_inplace_is_direct : forall c, k_fault c = None -> inplace_site (k_site c) = true ->
  model_prog c = direct_write 0 (k_chunks c).
Proof. exact inplace_is_direct. Qed.
Print Assumptions C10_inplace_is_direct.

(* ... witness in observational form: a case of that kind on which model and observation agree, the oracle is false,
   the classifier says 1, and the model's crash states contain an empty and a torn document *)
Theorem C10_sync_copy_refuted :
  mismatch_C10 case_sync_copy = false /\ holds_C10 case_sync_copy = false /\ classify_C10 case_sync_copy = 1%N /\
  existsb (fun x => outcome_eqb (fst x) OEmpty) (model_crash case_sync_copy) = true /\
  existsb (fun x => outcome_eqb (fst x) OTorn) (model_crash case_sync_copy) = true.
Proof. exact sync_copy_refuted_w. Qed.
Print Assumptions C10_sync_copy_refuted.

(* licence for the correspondence step: when the implementation's observations of a signac write agree with the
   model's, the oracle holds on them (precondition [pre_C10]: not one of the two in-place sites of known finding 1, the new
   content differs from the old one, abstract contents short enough for the model reader) *)
Theorem C10_model_holds : forall c,
  pre_C10 c = true -> mismatch_C10 c = false -> holds_C10 c = true.
Proof. exact model_holds_C10. Qed.
Print Assumptions C10_model_holds.

(* non-vacuity: a two-name file system, a stale temp file, a two-chunk write torn in the second chunk *)
Example C10_example :
  let fs := fs_of [(0%N, [1%N]); (1%N, [9%N])] 1%N in
  exists q, torn_prefix (atomic_write 1 0 [[2%N]; [3%N; 4%N]]) q /\
            read_name (w_fs (wrun (start fs) q)) 1 = Some [2%N; 3%N] /\
            read_name (w_fs (wrun (start fs) q)) 0 = Some [1%N].
Proof.
  exists [WOpen 1; WAppend [2%N]; WAppend [3%N]]. split.
  - unfold atomic_write. simpl. apply tp_step. apply tp_step. apply (tp_torn [3%N; 4%N] [3%N] [4%N]). reflexivity.
  - split; reflexivity.
Qed.
