From SV Require Import Base Json Canon Sync SyncObs CorrC13 CorrC14 C13Proofs C14Proofs.

Theorem C14_placeholder : forall frepr cf o en src dst,
  ob_src (model_call frepr cf o en src dst) = src.
Proof. exact run_sync_src_untouched. Qed.
Print Assumptions C14_placeholder.
