(* C14 — sync never overwrites conflicts unless told to; failed syncs roll documents back.
   Statements only; proofs in SV.SyncProofs / SyncDocProofs / SyncIdemProofs / SyncTopProofs / C14Proofs. *)
From SV Require Import C14Proofs SyncWitness.

(* overwrite_iff_strategy — after a successful real run a file that exists on both sides and differs (in the
   sense of the comparison in force: shallow = (size, mtime) then bytes, deep = bytes), is reachable (top level,
   or deeper when recursive) and not excluded / ignored by name, holds the source content iff the strategy
   answered true for (its mtimes and) its path relative to the job *)
Theorem C14_overwrite_iff_strategy : forall frepr cf p fuel o deep sdir ddir subdir d' s c1 m1 c2 m2,
  wf_node (Dir sdir) = true -> o_dry_run o = false -> o_strategy o = Some s ->
  sync_ws frepr cf fuel o deep sdir ddir subdir = (d', None) ->
  lookup_path p (Dir sdir) = Some (File c1 m1) -> lookup_path p (Dir ddir) = Some (File c2 m2) ->
  (o_recursive o = true \/ length p = 1%nat) ->
  forallb (fun k => negb (ignored cf k)) p = true -> excluded cf (at_path o p) (last p []) = false ->
  file_same frepr deep c1 m1 c2 m2 = false ->
  lookup_path p (Dir d') = Some (if verdict s (rel subdir p) m1 m2 then File c1 NOW else File c2 m2).
Proof. exact ws_overwrite_iff. Qed.
Print Assumptions C14_overwrite_iff_strategy.

(* ... and never otherwise: for EVERY outcome (success, exception half-way, dry run) a file of the destination
   is either exactly what it was, or all of the above holds and it is now the source file *)
Theorem C14_overwrite_only_if : forall frepr cf p fuel o deep sdir ddir subdir c2 m2,
  wf_node (Dir sdir) = true ->
  lookup_path p (Dir ddir) = Some (File c2 m2) ->
  let after := lookup_path p (Dir (fst (sync_ws frepr cf fuel o deep sdir ddir subdir))) in
  after = Some (File c2 m2)
  \/ exists c1 m1 s,
       lookup_path p (Dir sdir) = Some (File c1 m1) /\ o_strategy o = Some s
       /\ verdict s (rel subdir p) m1 m2 = true /\ excluded cf (at_path o p) (last p []) = false
       /\ file_same frepr deep c1 m1 c2 m2 = false /\ o_dry_run o = false
       /\ after = Some (File c1 NOW).
Proof. exact ws_overwrite_only_if. Qed.
Print Assumptions C14_overwrite_only_if.

(* the verdicts of the three stock strategies *)
Theorem C14_stock_strategies : forall rel ms md,
  verdict FS_always rel ms md = true /\ verdict FS_never rel ms md = false
  /\ (verdict FS_update rel ms md = true <-> (ms > md)%Z).
Proof. exact stock_strategies. Qed.
Print Assumptions C14_stock_strategies.

(* no_strategy_conflict — strategy=None: (a) whatever happens, every file of the destination keeps its content
   and mtime; (b) a differing, non-excluded, non-ignored file at the level being walked makes a real run raise
   FileSyncConflict *)
Theorem C14_no_strategy_conflict_untouched : forall frepr cf p fuel o deep sdir ddir subdir c m,
  wf_node (Dir sdir) = true -> o_strategy o = None ->
  lookup_path p (Dir ddir) = Some (File c m) ->
  lookup_path p (Dir (fst (sync_ws frepr cf fuel o deep sdir ddir subdir))) = Some (File c m).
Proof. exact ws_no_strategy_files_kept. Qed.
Print Assumptions C14_no_strategy_conflict_untouched.

Theorem C14_no_strategy_conflict_raises : forall frepr cf fuel o deep sdir ddir subdir n c1 m1 c2 m2,
  o_dry_run o = false -> o_strategy o = None ->
  alookup n sdir = Some (File c1 m1) -> alookup n ddir = Some (File c2 m2) ->
  ignored cf n = false -> excluded cf o n = false -> file_same frepr deep c1 m1 c2 m2 = false ->
  snd (sync_ws frepr cf (S fuel) o deep sdir ddir subdir) = Some EFileSyncConflict.
Proof. exact ws_no_strategy_raises. Qed.
Print Assumptions C14_no_strategy_conflict_raises.

(* bykey_overwrite_only_selected — FULL, for /repo as it is (cfg_current; repair 7de64dd passes root + key + "."):
   for every source / destination document, prefix, dry or real, any outcome, any nesting depth: a key whose
   values differ and are not both mappings keeps its value unless the key strategy selects its full dotted name
   (CorrC14.only_selected).  The former depth-3 counterexample is corpus/C14/w1 (C13_former_counterexamples_hold) *)
Theorem C14_bykey_overwrite_only_selected : forall ks sv, wf sv = true -> forall dv root dry sk,
  only_selected ks root sv dv (fst (fst (bykey cfg_current ks sv dv root dry sk))) = true.
Proof. exact bykey_only_selected_current. Qed.
Print Assumptions C14_bykey_overwrite_only_selected.

(* update_overwrites_all *)
Theorem C14_update_overwrites_all : forall sdoc ddoc k v, NoDup (map fst sdoc) -> In (k, v) sdoc ->
  alookup k (ds_update sdoc ddoc false) = Some v.
Proof. exact update_overwrites_all. Qed.
Print Assumptions C14_update_overwrites_all.

(* no_sync_touches_nothing — NO_SYNC: the document file of the destination job is not touched by sync_jobs
   (neither by the document path nor by the file walk), whatever the outcome *)
Theorem C14_no_sync_touches_nothing : forall frepr cf o deep fp sdir ddir dsp d' e,
  o_docsync o = DS_nosync ->
  (forall es, alookup FN_DOC ddir <> Some (Dir es)) ->
  sync_jobs_m frepr cf o deep fp (Some sdir) (Some ddir) dsp = (Some d', e) ->
  alookup FN_DOC d' = alookup FN_DOC ddir.
Proof. exact no_sync_touches_nothing. Qed.
Print Assumptions C14_no_sync_touches_nothing.

(* doc_conflict_rollback_exact — when the document synchronisation of a real run raises (DocumentSyncConflict,
   or the TypeError of a mixed-type conflict, or the refusal to overwrite an existing backup) the directory is
   EQUAL to what it was: the document has its old content and mtime, and no "~" file remains.  Both backup
   paths of create_doc_backup are covered: the in-memory one is shown never to see an exception *)
Theorem C14_doc_conflict_rollback_exact : forall cf o fn sdir ddir d' e,
  o_dry_run o = false -> NoDup (map fst (read_doc fn sdir)) ->
  sync_doc cf o fn sdir ddir = (d', Some e) -> d' = ddir.
Proof. exact sync_doc_rollback_exact. Qed.
Print Assumptions C14_doc_conflict_rollback_exact.

Theorem C14_inmemory_backup_never_rolls_back : forall cf ds sdoc dry, NoDup (map fst sdoc) ->
  snd (apply_docsync cf ds sdoc [] dry) = None.
Proof. exact apply_docsync_empty_ok. Qed.
Print Assumptions C14_inmemory_backup_never_rolls_back.

(* the document synchronisation touches nothing but the document file and its backup name *)
Theorem C14_doc_sync_frame : forall cf o fn sdir ddir k, k <> fn -> k <> backup_name fn ->
  alookup k (fst (sync_doc cf o fn sdir ddir)) = alookup k ddir.
Proof. exact sync_doc_frame. Qed.
Print Assumptions C14_doc_sync_frame.

(* licence for the correspondence: the per-file clause of the oracle (CorrC14.conflict_ok: the content
   after the call is the one the strategy chose, the strategy being asked about the '/'-joined relative path)
   holds for what the model computes *)
Theorem C14_model_holds : forall frepr cf k p fuel o deep sdir ddir d' s c1 m1 c2 m2,
  k <> [] ->
  wf_node (Dir sdir) = true -> o_dry_run o = false -> o_strategy o = Some s ->
  sync_ws frepr cf fuel o deep sdir ddir [] = (d', None) ->
  file_at (k :: p) sdir = Some (c1, m1) -> file_at (k :: p) ddir = Some (c2, m2) ->
  (o_recursive o = true \/ length (k :: p) = 1%nat) ->
  forallb (fun n => negb (ignored cf n)) (k :: p) = true -> excluded cf (at_path o (k :: p)) (last (k :: p) []) = false ->
  file_same frepr deep c1 m1 c2 m2 = false ->
  is_content frepr (if verdict s (path_str (k :: p)) m1 m2 then c1 else c2) (file_at (k :: p) d') = true.
Proof. exact model_holds_C14. Qed.
Print Assumptions C14_model_holds.

(* non-vacuity: a conflicting pair on which the model overwrites exactly the selected file and rolls a
   conflicting document back (corpus/C14 witnesses w2 / w1 under the repaired configuration) *)
Example C14_example :
  holds_C14 nofl (model_case nofl cfg_current wit_C14_w1) = true
  /\ ob_exn (c_obs (model_case nofl cfg_current wit_C14_w1)) = None
  /\ wf (JObj [([97%N], JObj [([98%N], JObj [([99%N], JInt 1)])])]) = true
  /\ nest_le2 (JObj [([97%N], JObj [([98%N], JInt 1)])]) = true.
Proof. vm_compute. repeat split. Qed.
