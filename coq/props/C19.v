(* C19 — discovery resolves to the nearest enclosing project; init_project is idempotent.
   This file only states theorems; proofs live in SV.C19Proofs.  The model is SV.Discover. *)
From SV Require Import Base Json Discover CorrC19 PathAlg C19Proofs.

(* ---- the upward search -------------------------------------------------------------------
   [nearest_cfg root cwd sp r]: r is reached from sp by iterating os.path.dirname, r holds
   .signac/config, and no directory passed on the way holds one ("no closer one exists"). *)

(* get_project(path): the path must exist and the returned project directory is the nearest
   ancestor-or-self of abspath(path) with a configuration file. *)
Theorem C19_get_project_nearest : forall root cwd path r root',
  get_project root cwd path true = (Ok r, root') ->
  os_exists root cwd path = true /\
  exists d, nearest_cfg root cwd (abspath cwd path) d /\ r = abspath cwd d.
Proof. exact get_project_nearest. Qed.
Print Assumptions C19_get_project_nearest.

(* the search is exact: loc_up (the first loop of _locate_config_dir) finds r iff r is the nearest *)
Theorem C19_search_complete : forall root cwd path r,
  nearest_cfg root cwd (abspath cwd path) r -> locate_config_dir root cwd path = Ok (Some r).
Proof. exact locate_of_nearest. Qed.
Print Assumptions C19_search_complete.

Theorem C19_nearest_unique : forall root cwd sp r r',
  nearest_cfg root cwd sp r -> nearest_cfg root cwd sp r' -> r = r'.
Proof. exact nearest_cfg_unique. Qed.
Print Assumptions C19_nearest_unique.

(* an up-to-date enclosing project of an existing path IS returned, and nothing is written *)
Theorem C19_get_project_finds : forall root cwd path d c,
  os_exists root cwd path = true -> nearest_cfg root cwd (abspath cwd path) d ->
  read_cfg root cwd (cfgfn cwd d) = RdCfg c -> declared_version c = SCHEMA ->
  os_isdir root cwd (path_join (abspath cwd d) s_workspace) = true ->
  get_project root cwd path true = (Ok (abspath cwd d), root).
Proof. exact get_project_finds. Qed.
Print Assumptions C19_get_project_finds.

(* search=False: only the directory itself *)
Theorem C19_get_project_nosearch : forall root cwd path r root',
  get_project root cwd path false = (Ok r, root') ->
  os_exists root cwd path = true /\ cfg_at root cwd path = true /\
  exists d, nearest_cfg root cwd (abspath cwd path) d /\ r = abspath cwd d.
Proof. exact get_project_nosearch. Qed.
Print Assumptions C19_get_project_nosearch.

Theorem C19_get_project_nosearch_refuses : forall root cwd path,
  cfg_at root cwd path = false -> raise_if_older root cwd path = None ->
  get_project root cwd path false = (Err ELookupError, root).
Proof. exact get_project_nosearch_refuses. Qed.
Print Assumptions C19_get_project_nosearch_refuses.

(* whatever else the directory holds (also a legacy project, see C20): never opened, nothing touched *)
Theorem C19_get_project_nosearch_never_opens : forall root cwd path,
  cfg_at root cwd path = false -> exists e, get_project root cwd path false = (Err e, root).
Proof. exact get_project_nosearch_never_opens. Qed.
Print Assumptions C19_get_project_nosearch_never_opens.

(* ---- LookupError otherwise, never a guess, never a write ------------------------------- *)
Theorem C19_lookup_error_missing_path : forall root cwd path s,
  os_exists root cwd path = false -> get_project root cwd path s = (Err ELookupError, root).
Proof. exact get_project_missing_path. Qed.
Print Assumptions C19_lookup_error_missing_path.

Theorem C19_lookup_error_no_project : forall root cwd path s,
  no_cfg_above root cwd (abspath cwd path) ->
  older_up (S (length (abspath cwd path))) root cwd (abspath cwd path) = None ->
  raise_if_older root cwd path = None ->
  get_project root cwd path s = (Err ELookupError, root).
Proof. exact get_project_no_project. Qed.
Print Assumptions C19_lookup_error_no_project.

Theorem C19_errors_touch_nothing : forall root cwd path s e root',
  get_project root cwd path s = (Err e, root') -> root' = root.
Proof. exact get_project_err_unchanged. Qed.
Print Assumptions C19_errors_touch_nothing.

(* ---- get_job (since fix 6e2adfe: component-wise) --------------------------------------------
   [abs_of comps] is the absolute path string "/c1/c2/…".  i is a component that is exactly a job
   id (32 characters 0-9a-f), no later component is one.  Names that merely CONTAIN 32 hex
   characters (64-hex, 40-hex, run_<md5>, <id>.bak) are ordinary names here.  Then the job id is
   the INNERMOST id component, the job path is /pre/i and the project is the one get_project finds
   from /pre/i/.. (above the job directory, never inside it). *)
Theorem C19_get_job_innermost : forall root cwd path pre i post,
  abspath cwd path = abs_of (pre ++ i :: post) -> forallb cleanb (pre ++ i :: post) = true ->
  is_id i = true -> forallb (fun c => negb (is_id c)) post = true ->
  os_exists root cwd (abspath cwd path) = true ->
  get_job root cwd path =
    match get_project root cwd (path_join (abs_of (pre ++ [i])) s_pardir) true with
    | (Ok pr, root') => (Ok (pr, i), root')
    | (Err x, root') => (Err x, root')
    end.
Proof. exact get_job_innermost. Qed.
Print Assumptions C19_get_job_innermost.

(* the scan from the end of path.split("/") stops at the innermost id component, whatever precedes
   it (other ids: a project nested in a job directory) and whatever non-id names follow it *)
Theorem C19_innermost_id_component : forall rpost i rb,
  is_id i = true -> forallb (fun c => negb (is_id c)) rpost = true ->
  innermost_idcomp (rpost ++ i :: rb) = Some (i, i :: rb).
Proof. exact innermost_idcomp_spec. Qed.
Print Assumptions C19_innermost_id_component.

Theorem C19_get_job_lookup_error_no_id : forall root cwd path comps,
  abspath cwd path = abs_of comps -> forallb cleanb comps = true ->
  forallb (fun c => negb (is_id c)) comps = true ->
  get_job root cwd path = (Err ELookupError, root).
Proof. exact get_job_no_id. Qed.
Print Assumptions C19_get_job_lookup_error_no_id.

Theorem C19_get_job_lookup_error_missing : forall root cwd path,
  os_exists root cwd (abspath cwd path) = false -> get_job root cwd path = (Err ELookupError, root).
Proof. exact get_job_missing. Qed.
Print Assumptions C19_get_job_lookup_error_missing.

(* ---- init_project ---------------------------------------------------------------------- *)
(* on an existing project no step of the initialisation branch runs: init_project IS Project(d) *)
Theorem C19_init_project_no_mutating_step : forall root cwd path d,
  os_exists root cwd path = true -> cfg_at root cwd path = true ->
  nearest_cfg root cwd (abspath cwd path) d ->
  init_project root cwd path = project_open root cwd d.
Proof. exact init_project_existing. Qed.
Print Assumptions C19_init_project_no_mutating_step.

(* and the only effect Project() can have is creating the missing workspace directory *)
Theorem C19_project_open_effect : forall root cwd p r root', project_open root cwd p = (r, root') ->
  root' = root \/
  (os_isdir root cwd (path_join (abspath cwd p) s_workspace) = false /\
   root' = snd (mkdirs root [] (split_sl (path_join (abspath cwd p) s_workspace)))).
Proof. exact project_open_effect. Qed.
Print Assumptions C19_project_open_effect.

Theorem C19_init_project_idempotent : forall root cwd path d c,
  os_exists root cwd path = true -> cfg_at root cwd path = true ->
  nearest_cfg root cwd (abspath cwd path) d ->
  read_cfg root cwd (cfgfn cwd d) = RdCfg c -> declared_version c = SCHEMA ->
  os_isdir root cwd (path_join (abspath cwd d) s_workspace) = true ->
  init_project root cwd path = (Ok (abspath cwd d), root).
Proof. exact init_project_idempotent. Qed.
Print Assumptions C19_init_project_idempotent.

(* ---- the same at the level of path COMPONENTS and physical lookups ------------------------
   [abs_of comps] = "/c1/…/cn"; [nearest root (rev comps)] = the longest prefix of comps holding
   .signac/config (physically, links followed).  On clean components (non-empty, slash-free, not
   "." / "..") the string-level search of the code computes exactly that prefix. *)
Theorem C19_nearest_components : forall root cwd rcomps r,
  forallb cleanb rcomps = true -> nearest root rcomps = Some r ->
  nearest_cfg root cwd (abs_of (rev rcomps)) (abs_of r).
Proof. exact nearest_sound. Qed.
Print Assumptions C19_nearest_components.

Theorem C19_no_project_components : forall root cwd rcomps,
  forallb cleanb rcomps = true -> nearest root rcomps = None ->
  no_cfg_above root cwd (abs_of (rev rcomps)).
Proof. exact nearest_none_sound. Qed.
Print Assumptions C19_no_project_components.

(* path algebra used above *)
Theorem C19_dirname_drops_last_component : forall cs c,
  cs <> [] -> forallb cleanb cs = true -> cleanb c = true -> dirname (abs_of (cs ++ [c])) = abs_of cs.
Proof. exact dirname_abs_of_snoc. Qed.
Print Assumptions C19_dirname_drops_last_component.

Theorem C19_abspath_identity_on_normalised : forall cwd cs,
  forallb cleanb cs = true -> abspath cwd (abs_of cs) = abs_of cs.
Proof. exact abspath_abs_of. Qed.
Print Assumptions C19_abspath_identity_on_normalised.

Theorem C19_config_fn_components : forall cwd cs, forallb cleanb cs = true ->
  cfgfn cwd (abs_of cs) = abs_of (cs ++ [s_dotsignac; s_config]).
Proof. exact cfgfn_abs_of. Qed.
Print Assumptions C19_config_fn_components.

(* ---- model_holds: licence for "implementation agrees with the model on this query => the oracle
   holds on this query", under the oracle's precondition pre_q (layout hypothesis of the property,
   validated per input).  The observed outcome must be in the property's vocabulary (a project / a
   job / LookupError); any other exception makes holds_q false by itself and is reported by the
   run-time evaluation of the oracle.  holds_q = holds_core (the discovery clauses: which project /
   job / LookupError, holder of the job, init_project idempotent) && change_ok ("nothing is reset":
   the tree is byte for byte as before except a re-created missing workspace directory; an exception
   touches nothing).  The three theorems below are about holds_core; C19_model_holds_change_partial
   adds change_ok. *)
Theorem C19_model_holds_get_project : forall base tree q s,
  q_kind q = QProject s -> pre_q base tree q = true -> agree_q base tree q = true ->
  outcome_in_vocabulary (q_kind q) (q_res q) -> holds_core base tree q = true.
Proof. exact model_holds_get_project. Qed.
Print Assumptions C19_model_holds_get_project.

(* get_job, full strength: the job is the innermost id-like component, its project is the nearest
   enclosing project of the job directory's parent, that parent IS <project>/workspace physically,
   LookupError only when the path does not exist / has no id-like component / has no project *)
Theorem C19_model_holds_get_job : forall base tree q,
  q_kind q = QJob -> pre_q base tree q = true -> agree_q base tree q = true ->
  job_vocabulary (q_res q) -> holds_core base tree q = true.
Proof. exact model_holds_job. Qed.
Print Assumptions C19_model_holds_get_job.

(* init_project on an existing project.  FULL statement (not proved): the same without the
   hypothesis q_changed q = false, i.e. also when Project() re-creates a missing workspace
   directory (the oracle then compares the tree after with "tree before + empty workspace"; proved
   instead at model level: C19_init_project_no_mutating_step, C19_project_open_effect). *)
Theorem C19_model_holds_init_partial : forall base tree q,
  q_kind q = QInit -> pre_q base tree q = true -> agree_q base tree q = true ->
  outcome_in_vocabulary (q_kind q) (q_res q) -> q_changed q = false ->
  holds_core base tree q = true.
Proof. exact model_holds_init. Qed.
Print Assumptions C19_model_holds_init_partial.

(* the whole oracle, clause change_ok included.  FULL statement (not proved): the same without the
   hypothesis q_changed q = false, i.e. also when the call re-created the missing workspace
   directory of the project it returns (then change_ok compares the observed tree with "tree before
   + that empty directory"; at model level this is C19_project_open_effect and
   C19_errors_touch_nothing; on the implementation it is evaluated on every observation). *)
Theorem C19_model_holds_change_partial : forall base tree q,
  holds_core base tree q = true -> q_changed q = false -> holds_q base tree q = true.
Proof. exact model_holds_full. Qed.
Print Assumptions C19_model_holds_change_partial.

(* ---- non-vacuity: a concrete tree satisfying the hypotheses -------------------------------
   /p is a project, /p/workspace/<id>/inner is a project nested in a job directory with its own
   job <id2>; /p/workspace/<id>/inner/workspace/<id2>/sub is queried. *)
Definition ex_id : str := repeat 97%N 32.      (* "aaaa…a" *)
Definition ex_id2 : str := repeat 98%N 32.     (* "bbbb…b" *)
Definition ex_cfg : node := Dir [(s_config, File (FCfg {| cv := Some 2%Z; cproj := None; cws := None |}))].
Definition ex_sub : str := [115; 117; 98]%N.
Definition ex_inner : str := [105; 110; 110; 101; 114]%N.
Definition ex_root : node :=
  Dir [([112%N], Dir [(s_dotsignac, ex_cfg);
        (s_workspace, Dir [(ex_id, Dir [(ex_inner, Dir [(s_dotsignac, ex_cfg);
              (s_workspace, Dir [(ex_id2, Dir [(ex_sub, Dir [])])])])])])])].
Definition ex_path : str := abs_of [[112%N]; s_workspace; ex_id; ex_inner; s_workspace; ex_id2; ex_sub].

Example C19_example_nested :
  get_project ex_root [47%N] ex_path true = (Ok (abs_of [[112%N]; s_workspace; ex_id; ex_inner]), ex_root) /\
  get_job ex_root [47%N] ex_path = (Ok (abs_of [[112%N]; s_workspace; ex_id; ex_inner], ex_id2), ex_root) /\
  get_job ex_root [47%N] (abs_of [[112%N]; s_workspace; ex_id]) = (Ok (abs_of [[112%N]], ex_id), ex_root) /\
  get_project ex_root [47%N] (abs_of [[112%N]; s_workspace; ex_id]) false = (Err ELookupError, ex_root) /\
  init_project ex_root [47%N] (abs_of [[112%N]]) = (Ok (abs_of [[112%N]]), ex_root) /\
  nearest ex_root (rev [[112%N]; s_workspace; ex_id; ex_inner; s_workspace; ex_id2; ex_sub])
    = Some [[112%N]; s_workspace; ex_id; ex_inner].
Proof. vm_compute. repeat split; reflexivity. Qed.
