(* C01 — the job id is the canonical, order-independent hash of the state point value.
   This file only states theorems; proofs live in SV.C01Proofs / SV.Json / SV.Canon. *)
From SV Require Import Base Json MD5 Canon CanonChars CorrC01 C01Proofs.

(* identical id for every key insertion order at every nesting level *)
Theorem C01_order_independent : forall (frepr : fl -> str) v v',
  wf v = true -> wf v' = true -> jperm v v' -> calc_id frepr v = calc_id frepr v'.
Proof. exact calc_id_jperm. Qed.
Print Assumptions C01_order_independent.

(* every value is related to its sorted normal form, i.e. [same_json] is the quotient by key order *)
Theorem C01_norm_is_key_reordering : forall v, jperm v (norm v).
Proof. exact jperm_norm. Qed.
Print Assumptions C01_norm_is_key_reordering.

(* values that differ as JSON values have different canonical token streams (unique readability) *)
Theorem C01_canon_injective_tokens : forall v v',
  tokens (norm v) = tokens (norm v') -> same_json v v'.
Proof. exact canon_tokens_inj. Qed.
Print Assumptions C01_canon_injective_tokens.

(* CHARACTER LEVEL: the canonical JSON text determines the JSON value.  The hypotheses describe
   Python's float.__repr__ on finite floats (number characters only, starts with a digit or '-',
   injective, never an integer lexeme) and are validated on every oracle entry by the harness;
   strings hold Unicode scalar values (no lone surrogates). *)
Theorem C01_canon_injective : forall (frepr : fl -> str),
  (forall f, forallb numchar (frepr f) = true) ->
  (forall f, exists c t, frepr f = c :: t /\ (c = 45 \/ 48 <= c <= 57)%N) ->
  (forall f g, frepr f = frepr g -> f = g) ->
  (forall f z, frepr f <> dec_Z z) ->
  forall v v', valid_json (norm v) = true -> valid_json (norm v') = true ->
    canon frepr v = canon frepr v' -> same_json v v'.
Proof. exact canon_injective. Qed.
Print Assumptions C01_canon_injective.

(* the escape of strings is uniquely decodable (prefix code with the closing quote as terminator) *)
Theorem C01_string_lexeme_injective : forall s s' r r', valid_str s = true -> valid_str s' = true ->
  quote s ++ r = quote s' ++ r' -> s = s' /\ r = r'.
Proof. exact quote_prefix_free. Qed.
Print Assumptions C01_string_lexeme_injective.

(* lexemes: decimal integers are injective (character level) *)
Theorem C01_int_lexeme_injective : forall a b, dec_Z a = dec_Z b -> a = b.
Proof. exact dec_Z_inj. Qed.
Print Assumptions C01_int_lexeme_injective.

Theorem C01_one_int_float_bool_str_distinct :
  let i := JInt 1 in let f := JFloat (1%Z, 0%Z) in let b := JBool true in let s := JStr [49%N] in
  tokens (norm i) <> tokens (norm f) /\ tokens (norm i) <> tokens (norm b) /\
  tokens (norm i) <> tokens (norm s) /\ tokens (norm f) <> tokens (norm b) /\
  tokens (norm f) <> tokens (norm s) /\ tokens (norm b) <> tokens (norm s).
Proof. exact one_distinct. Qed.
Print Assumptions C01_one_int_float_bool_str_distinct.

Theorem C01_list_order_matters : forall a b, a <> b ->
  ~ same_json (JArr [a; b]) (JArr [b; a]) \/ norm a = norm b.
Proof. exact list_order_matters. Qed.
Print Assumptions C01_list_order_matters.

Theorem C01_extra_key_matters : forall kvs k x,
  ~ In k (map fst kvs) -> ~ same_json (JObj kvs) (JObj ((k, x) :: kvs)).
Proof. exact extra_key_matters. Qed.
Print Assumptions C01_extra_key_matters.

(* 32 lowercase hex characters, always *)
Theorem C01_id_shape : forall (frepr : fl -> str) v,
  length (calc_id frepr v) = 32%nat /\ forallb lower_hex (calc_id frepr v) = true.
Proof. exact calc_id_shape. Qed.
Print Assumptions C01_id_shape.

(* honest form of "different values get different ids": the only residual is an MD5 collision *)
Theorem C01_id_equal_only_by_md5_collision : forall (frepr : fl -> str) v v',
  calc_id frepr v = calc_id frepr v' ->
  canon frepr v = canon frepr v' \/
  (canon frepr v <> canon frepr v' /\ md5_hex (canon frepr v) = md5_hex (canon frepr v')).
Proof. exact id_equal_only_by_md5_collision. Qed.
Print Assumptions C01_id_equal_only_by_md5_collision.

(* licence for the correspondence step: an implementation that agrees with the model on a case
   satisfies the order-independence and shape clauses of the oracle on that case *)
Theorem C01_model_holds : forall c i0 rest,
  mismatch_C01 c = false -> c1_ids c = i0 :: rest ->
  forallb (str_eqb i0) (c1_ids c) = true /\ id_shape i0 = true.
Proof. exact model_agreement_implies_shape. Qed.
Print Assumptions C01_model_holds.

(* non-vacuity: a concrete permuted nested pair satisfies the hypotheses *)
Example C01_example :
  let v  := JObj [([97%N], JInt 1); ([98%N], JObj [([120%N], JNull); ([121%N], JArr [JBool true])])] in
  let v' := JObj [([98%N], JObj [([121%N], JArr [JBool true]); ([120%N], JNull)]); ([97%N], JInt 1)] in
  wf v = true /\ wf v' = true /\ norm v = norm v' /\ v <> v'.
Proof. simpl. repeat split; try reflexivity. discriminate. Qed.
