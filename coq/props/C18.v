(* C18 — schema detection and job diffs are exact summaries of the state points.
   Statements only; proofs in SV.C18Proofs (reusing the index invariant of SV.QueryProofs). *)
From SV Require Import Base Json PyVal Query QueryProofs C06Proofs Schema C18Proofs CorrC18.

(* keys: exactly the dotted leaf keys present in the selected jobs — no side condition *)
Theorem C18_schema_keys_exact : forall jobs,
  (forall i sp, In (i, sp) jobs -> exists kvs, sp = JObj kvs) ->
  forall sk, In sk (map fst (detect_schema false jobs)) <-> In sk (ref_keys jobs).
Proof. exact schema_keys_exact. Qed.
Print Assumptions C18_schema_keys_exact.

(* FULL STATEMENT for values: the values reported under a key are exactly the jobs' values under it,
   grouped by type.  False of the current code (C18_schema_values_refuted_ below: True/1 and -1/-1.0
   share one slot of the typed index).  Proved under NoSlotMerge (SlotInj for every key). *)
Theorem C18_schema_values_exact_partial : forall excl jobs k vals,
  (forall key, SlotInj (map snd (kvals (sp_corpus jobs) key))) ->
  In (k, vals) (detect_schema excl jobs) ->
  exists k', k = strip_prefix k' /\
    forall v, In v vals <-> (is_obj v = false /\ In v (map snd (kvals (sp_corpus jobs) k'))).
Proof. exact schema_values_exact_partial. Qed.
Print Assumptions C18_schema_values_exact_partial.

(* what the indexed values are, in terms of the state points themselves *)
Theorem C18_indexed_values_are_statepoint_values : forall jobs k v,
  In v (map snd (kvals (sp_corpus jobs) (s_sp ++ dot :: k))) <->
  exists i sp x, In (i, sp) jobs /\ sp_value sp k = Some x /\ v = as_key x.
Proof. exact kvals_sp_corpus. Qed.
Print Assumptions C18_indexed_values_are_statepoint_values.

(* exclude_const drops a key iff every selected job has it and all hold the same value *)
Theorem C18_exclude_const_exact_partial : forall (c : corpus) key,
  SlotInj (map snd (kvals c key)) ->
  (forall v, In v (map snd (kvals c key)) -> slot_eq v v = true) ->
  (is_const_index (build_index c key) (length c) = true <->
   (kvals c key <> [] /\ length (kvals c key) = length c /\
    exists v, forall p, In p (kvals c key) -> snd p = v)).
Proof. exact exclude_const_exact_partial. Qed.
Print Assumptions C18_exclude_const_exact_partial.

Theorem C18_all_jobs_have_key : forall c key, length (kvals c key) = length c ->
  forall i d, In (i, d) c -> own_value d key <> None.
Proof. exact kvals_full_all_have. Qed.
Print Assumptions C18_all_jobs_have_key.

(* diffs: own pairs split into the diff and the part shared (Python ==) by all jobs *)
Theorem C18_diff_partition : forall jobs sp pr, In pr (leaf_pairs sp) ->
  (In pr (diff_pairs jobs sp) /\ shared_by_all jobs pr = false) \/
  (~ In pr (diff_pairs jobs sp) /\ shared_by_all jobs pr = true).
Proof. exact diff_partition. Qed.
Print Assumptions C18_diff_partition.

Theorem C18_diff_only_own_pairs : forall jobs sp pr, In pr (diff_pairs jobs sp) -> In pr (leaf_pairs sp).
Proof. exact diff_only_own_pairs. Qed.
Print Assumptions C18_diff_only_own_pairs.

Theorem C18_diff_pair_not_shared : forall jobs sp pr, In pr (diff_pairs jobs sp) ->
  exists j, In j jobs /\ existsb (pair_eq pr) (leaf_pairs (snd j)) = false.
Proof. exact diff_pair_not_shared. Qed.
Print Assumptions C18_diff_pair_not_shared.

(* refutation of the unrestricted value clause (known finding C18 tag 1) *)
Theorem C18_schema_values_refuted_bool_int :
  let jobs := [job18 1 (JBool true); job18 2 (JInt 1)] in
  detect_schema false jobs = [(key_a18, [JBool true])] /\
  schema_exact false jobs (detect_schema false jobs) = false /\
  detect_schema true jobs = [].
Proof. exact schema_refuted_bool_int. Qed.
Print Assumptions C18_schema_values_refuted_bool_int.

Theorem C18_schema_values_refuted_minus_one :
  let jobs := [job18 1 (JInt (-1)); job18 2 (JFloat ((-1)%Z, 0%Z))] in
  detect_schema false jobs = [(key_a18, [JInt (-1)])] /\
  schema_exact false jobs (detect_schema false jobs) = false.
Proof. exact schema_refuted_minus_one. Qed.
Print Assumptions C18_schema_values_refuted_minus_one.

Example C18_example_exact :
  let jobs := [job18 1 (JInt 1); job18 2 (JFloat (1%Z, 0%Z)); job18 3 (JStr [120%N])] in
  schema_exact false jobs (detect_schema false jobs) = true /\
  schema_exact true jobs (detect_schema true jobs) = true.
Proof. exact schema_example_exact. Qed.
