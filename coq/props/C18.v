(* C18 — schema detection and job diffs are exact summaries of the state points.
   Statements only; proofs in SV.C18Proofs (reusing the index invariant of SV.QueryProofs). *)
From SV Require Import Base Json PyVal Query QueryProofs C06Proofs Schema C18Proofs C18Const CorrC18.

(* keys: exactly the dotted leaf keys present in the selected jobs — no side condition *)
Theorem C18_schema_keys_exact : forall jobs,
  (forall i sp, In (i, sp) jobs -> exists kvs, sp = JObj kvs) ->
  forall sk, In sk (map fst (detect_schema false jobs)) <-> In sk (ref_keys jobs).
Proof. exact schema_keys_exact. Qed.
Print Assumptions C18_schema_keys_exact.

(* FULL STATEMENT for values: the values reported under a key are exactly the jobs' values under it,
   grouped by type.  False of the current code (C18_schema_values_refuted_ below: True/1 and -1/-1.0
   share one slot of the typed index).  Proved under NoSlotMerge (SlotInj for every key). *)
Theorem C18_schema_values_exact_partial : forall excl jobs k vals,
  (forall key, SlotInj (map snd (kvals (sp_corpus jobs) key))) ->
  In (k, vals) (detect_schema excl jobs) ->
  exists k', k = strip_prefix k' /\
    forall v, In v vals <-> (is_obj v = false /\ In v (map snd (kvals (sp_corpus jobs) k'))).
Proof. exact schema_values_exact_partial. Qed.
Print Assumptions C18_schema_values_exact_partial.

(* what the indexed values are, in terms of the state points themselves *)
Theorem C18_indexed_values_are_statepoint_values : forall jobs k v,
  In v (map snd (kvals (sp_corpus jobs) (s_sp ++ dot :: k))) <->
  exists i sp x, In (i, sp) jobs /\ sp_value sp k = Some x /\ v = as_key x.
Proof. exact kvals_sp_corpus. Qed.
Print Assumptions C18_indexed_values_are_statepoint_values.

(* exclude_const drops a key iff every selected job has it and all hold the same value *)
Theorem C18_exclude_const_exact_partial : forall (c : corpus) key,
  SlotInj (map snd (kvals c key)) ->
  (forall v, In v (map snd (kvals c key)) -> slot_eq v v = true) ->
  (is_const_index (build_index c key) (length c) = true <->
   (kvals c key <> [] /\ length (kvals c key) = length c /\
    exists v, forall p, In p (kvals c key) -> snd p = v)).
Proof. exact exclude_const_exact_partial. Qed.
Print Assumptions C18_exclude_const_exact_partial.

Theorem C18_all_jobs_have_key : forall c key, length (kvals c key) = length c ->
  forall i d, In (i, d) c -> own_value d key <> None.
Proof. exact kvals_full_all_have. Qed.
Print Assumptions C18_all_jobs_have_key.

(* mapping-valued keys (repair of known finding C18 tag 2): the constancy test of the model, stated on the
   state points -- a dropped key is one on which the selected jobs agree, mappings included *)
Theorem C18_exclude_const_sound_partial : forall jobs (nodes : list str),
  nodes <> [] -> Forall (fun n => contains_char dot n = false) nodes ->
  let k := join_with dot (s_sp :: nodes) in
  SlotInj (map snd (kvals (sp_corpus jobs) k)) ->
  (forall v, In v (map snd (kvals (sp_corpus jobs) k)) -> slot_eq v v = true) ->
  (forall i sp, In (i, sp) jobs -> fits SFUEL (sp_doc sp) = true) ->
  schema_const (sp_corpus jobs) k = true ->
  jobs <> [] /\
  exists v0, forall i sp, In (i, sp) jobs ->
    exists x, lookup_path sp nodes = Some x /\ as_key x = v0 /\ (is_obj x = true -> x = JObj []).
Proof. exact schema_const_sound. Qed.
Print Assumptions C18_exclude_const_sound_partial.

(* no dotted key of the selected jobs extends the key  <=>  every mapping held under it is empty *)
Theorem C18_mappings_not_extended_are_empty : forall jobs (nodes : list str),
  nodes <> [] ->
  (forall i sp, In (i, sp) jobs -> fits SFUEL (sp_doc sp) = true) ->
  key_extended (sp_corpus jobs) (join_with dot (s_sp :: nodes)) = false ->
  forall i sp m, In (i, sp) jobs -> lookup_path sp nodes = Some (JObj m) -> m = [].
Proof. exact const_mapping_sound. Qed.
Print Assumptions C18_mappings_not_extended_are_empty.

Theorem C18_empty_mappings_are_not_extended : forall jobs (nodes : list str),
  nodes <> [] -> Forall (fun n => contains_char dot n = false) nodes ->
  (forall i sp, In (i, sp) jobs ->
     wf sp = true /\ NoDotKeys sp /\ lookup_path sp nodes = Some (JObj [])) ->
  key_extended (sp_corpus jobs) (join_with dot (s_sp :: nodes)) = false.
Proof. exact const_mapping_complete. Qed.
Print Assumptions C18_empty_mappings_are_not_extended.

(* diffs: own pairs split into the diff and the part shared (Python ==) by all jobs *)
Theorem C18_diff_partition : forall jobs sp pr, In pr (leaf_pairs sp) ->
  (In pr (diff_pairs jobs sp) /\ shared_by_all jobs pr = false) \/
  (~ In pr (diff_pairs jobs sp) /\ shared_by_all jobs pr = true).
Proof. exact diff_partition. Qed.
Print Assumptions C18_diff_partition.

Theorem C18_diff_only_own_pairs : forall jobs sp pr, In pr (diff_pairs jobs sp) -> In pr (leaf_pairs sp).
Proof. exact diff_only_own_pairs. Qed.
Print Assumptions C18_diff_only_own_pairs.

Theorem C18_diff_pair_not_shared : forall jobs sp pr, In pr (diff_pairs jobs sp) ->
  exists j, In j jobs /\ existsb (pair_eq pr) (leaf_pairs (snd j)) = false.
Proof. exact diff_pair_not_shared. Qed.
Print Assumptions C18_diff_pair_not_shared.

(* refutation of the unrestricted value clause (known finding C18 tag 1) *)
Theorem C18_schema_values_refuted_bool_int :
  let jobs := [job18 1 (JBool true); job18 2 (JInt 1)] in
  detect_schema false jobs = [(key_a18, [JBool true])] /\
  schema_exact false jobs (detect_schema false jobs) = false /\
  detect_schema true jobs = [].
Proof. exact schema_refuted_bool_int. Qed.
Print Assumptions C18_schema_values_refuted_bool_int.

Theorem C18_schema_values_refuted_minus_one :
  let jobs := [job18 1 (JInt (-1)); job18 2 (JFloat ((-1)%Z, 0%Z))] in
  detect_schema false jobs = [(key_a18, [JInt (-1)])] /\
  schema_exact false jobs (detect_schema false jobs) = false.
Proof. exact schema_refuted_minus_one. Qed.
Print Assumptions C18_schema_values_refuted_minus_one.

Example C18_example_exact :
  let jobs := [job18 1 (JInt 1); job18 2 (JFloat (1%Z, 0%Z)); job18 3 (JStr [120%N])] in
  schema_exact false jobs (detect_schema false jobs) = true /\
  schema_exact true jobs (detect_schema true jobs) = true.
Proof. exact schema_example_exact. Qed.

Example C18_example_mappings :
  let w := [job18 1 (JObj [(key_x18, JStr key_x18)]); job18 2 (JObj [])] in
  let e := [([1%N], JObj [(key_a18, JObj []); (key_b18, JInt 1)]);
            ([2%N], JObj [(key_a18, JObj []); (key_b18, JInt 2)])] in
  schema_const (sp_corpus w) (join_with dot [s_sp; key_a18]) = false /\
  schema_exact true w (detect_schema true w) = true /\
  schema_const (sp_corpus e) (join_with dot [s_sp; key_a18]) = true /\
  schema_exact true e (detect_schema true e) = true.
Proof. exact const_mapping_examples. Qed.
