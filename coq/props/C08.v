(* C08 — the state point cache is transparent, and update_cache makes it exact.
   Only statements; the model is SV.Cache (written after signac/project.py and job.py), proofs are in
   SV.C08Proofs.  Every theorem is parametric in the library oracles
     frepr   : float.__repr__
     loads_s : bytes.decode() + json.loads(str)      (Project._get_statepoint_from_workspace)
     loads_b : json.loads(bytes)                     (_StatePointDict.load)
   which are Section variables of the model, never axioms. *)
From SV Require Import Base Json MD5 Canon FS Ws Cache CacheLemmas CorrC08 C08Proofs.

(* ---------------------------------------------------------------- cache_sound_inv
   Inv f s: every entry of the session's _sp_cache and every entry of the persistent cache file
   satisfies calc_id sp = id.  It holds initially and is preserved by every operation of the model:
   init, remove, re-key, update_cache (either comparison), session restart, deletion of the cache
   file, and every observation (find_jobs / open_job(id=..).statepoint()) made through a session. *)
Theorem C08_cache_sound_initial : forall frepr f,
  cache_file f = None -> Inv frepr f fresh.
Proof. intros frepr f H. split; [apply sound_nil|]. intros c Hc. congruence. Qed.
Print Assumptions C08_cache_sound_initial.

Theorem C08_cache_sound_inv_init : forall frepr loads_b f s sp f' s' r,
  Inv frepr f s -> op_init frepr loads_b f s sp = (f', s', r) -> Inv frepr f' s'.
Proof. exact inv_init. Qed.
Print Assumptions C08_cache_sound_inv_init.

Theorem C08_cache_sound_inv_remove : forall frepr f s sp f' s' r,
  Inv frepr f s -> op_remove frepr f s sp = (f', s', r) -> Inv frepr f' s'.
Proof. exact inv_remove. Qed.
Print Assumptions C08_cache_sound_inv_remove.

Theorem C08_cache_sound_inv_rekey : forall frepr loads_b f s old new f' s' r,
  Inv frepr f s -> op_rekey frepr loads_b f s old new = (f', s', r) -> Inv frepr f' s'.
Proof. exact inv_rekey. Qed.
Print Assumptions C08_cache_sound_inv_rekey.

Theorem C08_cache_sound_inv_update_cache : forall frepr loads_s f s f' s' r,
  Inv frepr f s -> update_cache frepr loads_s f s = (f', s', r) -> Inv frepr f' s'.
Proof. intros frepr loads_s. exact (inv_update_cache_gen frepr loads_s F9_FIXED). Qed.
Print Assumptions C08_cache_sound_inv_update_cache.

Theorem C08_cache_sound_inv_restart : forall frepr f s, Inv frepr f s -> Inv frepr f fresh.
Proof. exact inv_restart. Qed.
Print Assumptions C08_cache_sound_inv_restart.

Theorem C08_cache_sound_inv_delete_cache : forall frepr f s f',
  Inv frepr f s -> unlink f CACHEP = FOk f' -> Inv frepr f' s.
Proof. exact inv_delcache. Qed.
Print Assumptions C08_cache_sound_inv_delete_cache.

Theorem C08_cache_sound_inv_observe : forall frepr loads_s loads_b f s ev,
  Inv frepr f s -> Inv frepr f (fst (observe frepr loads_s loads_b f s ev)).
Proof. intros. split; [apply observe_sound; auto|exact (proj2 H)]. Qed.
Print Assumptions C08_cache_sound_inv_observe.

(* ---------------------------------------------------------------- cache_transparent
   For an uncorrupted workspace (ws_intact), sound caches, and no MD5 collision among the values at
   hand (coll_free: stated on the finite set of cached values against the workspace values, NOT as a
   global injectivity assumption), every observation — find_jobs for any per-job evaluator that does not
   depend on key order, len, ids by iteration, open_job(id=i).statepoint() for every listed i — made
   through ANY session (fresh or with an arbitrarily stale in-memory cache) on the file system WITH the
   cache file equals the observation of a fresh session on the file system WITHOUT it (state points up to
   key order).  The listing always comes from the directory. *)
Theorem C08_cache_transparent : forall frepr loads_s loads_b f s ev,
  Inv frepr f s -> ws_intact frepr loads_s loads_b f ->
  coll_free frepr loads_s f (map snd (s_cache s) ++ file_vals f) ->
  (forall a b, norm a = norm b -> ev a = ev b) ->
  obs_equiv (snd (observe frepr loads_s loads_b f s ev))
            (snd (observe frepr loads_s loads_b (without_cache f) fresh ev)).
Proof. exact cache_transparent. Qed.
Print Assumptions C08_cache_transparent.

(* the answers themselves: computed from the directory listing and the workspace files alone *)
Theorem C08_observations_from_workspace : forall frepr loads_s loads_b f s ev,
  Agr loads_s f s -> ws_intact frepr loads_s loads_b f -> (forall a b, norm a = norm b -> ev a = ev b) ->
  let o := snd (observe frepr loads_s loads_b f s ev) in
  o_find o = Ok (filter (ev_ws loads_s ev f) (listing f)) /\
  o_len o = N.of_nat (length (listing f)) /\ o_ids o = listing f /\
  Forall2 (fun p i => fst p = i /\ exists v w, snd p = Ok v /\ wsv loads_s f i = Some w /\ norm v = norm w)
          (o_open o) (listing f).
Proof. exact observe_ref. Qed.
Print Assumptions C08_observations_from_workspace.

(* ---------------------------------------------------------------- opening by ABBREVIATED id
   open_job(id=p) with fewer than 32 characters: in a session with sound caches the prefix is resolved against
   the DIRECTORY LISTING alone (unique match -> that id, none -> KeyError, several -> LookupError); a cache entry
   can only supply the state point of the id found there (an abbreviated id never hits the cache: its keys are
   32-character hashes).  Hence the observation is transparent as well. *)
Theorem C08_prefix_resolution_from_listing : forall frepr f s p,
  Inv frepr f s -> (length p < 32)%nat ->
  open_id f s p =
    (ensure_read f s,
     match filter (str_prefix p) (listing f) with
     | [m] => Ok (m, alookup m (s_cache (ensure_read f s)))
     | [] => Err EKeyError
     | _ => Err ELookupError
     end).
Proof. exact prefix_resolution_from_listing. Qed.
Print Assumptions C08_prefix_resolution_from_listing.

Theorem C08_cache_transparent_abbreviated_id : forall frepr loads_s loads_b f s ev ps,
  Inv frepr f s -> ws_intact frepr loads_s loads_b f ->
  coll_free frepr loads_s f (map snd (s_cache s) ++ file_vals f) ->
  (forall p, In p ps -> (length p < 32)%nat) ->
  Forall2 (fun x y => fst x = fst y /\ pre_equiv (snd x) (snd y))
    (snd (open_pres frepr loads_b f (fst (observe frepr loads_s loads_b f s ev)) ps))
    (snd (open_pres frepr loads_b (without_cache f)
            (fst (observe frepr loads_s loads_b (without_cache f) fresh ev)) ps)).
Proof. exact prefix_transparent. Qed.
Print Assumptions C08_cache_transparent_abbreviated_id.

(* ---------------------------------------------------------------- cached_statepoint of handles reached by id
   (open_job(id=..) or iteration): what the session serves hashes to the id, and — for listed jobs — equals,
   up to key order, what a fresh session without the cache file shows.  (The harness additionally compares
   type-exactly: a tuple given by the caller must come back as the stored list.) *)
Theorem C08_cached_statepoint_never_wrong : forall frepr loads_s f s i s' sp,
  Inv frepr f s -> cached_by_id frepr loads_s f s i = (s', Ok sp) ->
  exists m, (m = i \/ resolve_id f i = Ok m) /\ cid frepr sp = m.
Proof. exact cached_by_id_never_wrong. Qed.
Print Assumptions C08_cached_statepoint_never_wrong.

Theorem C08_cache_transparent_cached_statepoint : forall frepr loads_s loads_b f s ids,
  Inv frepr f s -> ws_intact frepr loads_s loads_b f ->
  coll_free frepr loads_s f (map snd (s_cache s) ++ file_vals f) ->
  (forall i, In i ids -> In i (listing f)) ->
  Forall2 (fun x y => fst x = fst y /\ res_equiv (snd x) (snd y))
    (snd (cached_all frepr loads_s f s ids)) (snd (cached_all frepr loads_s (without_cache f) fresh ids)).
Proof. exact cached_transparent. Qed.
Print Assumptions C08_cache_transparent_cached_statepoint.

(* re-keying through a handle reached BY ID keeps the caches sound: the old id keeps its old state point *)
Theorem C08_cache_sound_inv_rekey_by_id : forall frepr loads_b f s i new f' s' r,
  Inv frepr f s -> op_rekey_id frepr loads_b f s i new = (f', s', r) -> Inv frepr f' s'.
Proof. exact inv_rekey_id. Qed.
Print Assumptions C08_cache_sound_inv_rekey_by_id.

(* update_statepoint through a handle reached BY ID (or by iteration) keeps the caches sound as well: it works on a
   copy (self.statepoint()), never on the dict the session cache holds under the old id — whether the re-key
   succeeds, is rejected (DestinationExistsError) or the old id is created again later by another session *)
Theorem C08_cache_sound_inv_update_statepoint_by_id : forall frepr loads_b f s i upd f' s' r,
  Inv frepr f s -> op_upd_id frepr loads_b f s i upd = (f', s', r) -> Inv frepr f' s'.
Proof. exact inv_upd_id. Qed.
Print Assumptions C08_cache_sound_inv_update_statepoint_by_id.

(* a change of the workspace made by ANOTHER session (init / remove) keeps Inv for the session that lives on *)
Theorem C08_cache_sound_inv_foreign_init : forall frepr loads_b f s sp f' s' r,
  Inv frepr f s -> op_init frepr loads_b f fresh sp = (f', s', r) -> Inv frepr f' s.
Proof. exact inv_foreign_init. Qed.
Print Assumptions C08_cache_sound_inv_foreign_init.

(* ---------------------------------------------------------------- update_cache_exact
   After update_cache() returns, the cache file lists exactly the ids of the workspace (exact: keys distinct,
   key set = directory listing, every value = the workspace state point up to key order), the workspace is
   untouched, and an immediate second call returns None.  No side condition beyond the standing ones (sound
   caches, uncorrupted workspace, collision freedom on the values at hand).
   History: before fix: d7351f9 the id set used in the comparison was taken BEFORE the in-memory cache was
   reconciled with the workspace (defect F9: any new session got None and a stale file).  The model keeps both
   comparisons in Cache.update_cache_gen (late : bool); F9_FIXED = true selects the present code.  The old
   behaviour is recorded by C08_update_cache_before_fix (exact only outside f9_state) and the Example
   C08_example_fix (same state: new code rewrites, old comparison answered None). *)
Theorem C08_update_cache_exact : forall frepr loads_s loads_b f s f' s' r,
  Inv frepr f s -> NoDup (map fst (s_cache s)) -> file_nodup f -> ws_intact frepr loads_s loads_b f ->
  coll_free frepr loads_s f (map snd (s_cache s) ++ file_vals f) ->
  update_cache frepr loads_s f s = (f', s', Ok r) ->
  exact loads_s f' /\ listing f' = listing f /\
  exists s'', update_cache frepr loads_s f' s' = (f', s'', Ok None).
Proof. exact update_cache_exact. Qed.
Print Assumptions C08_update_cache_exact.

Theorem C08_update_cache_before_fix : forall frepr loads_s loads_b f s f' s' r,
  Inv frepr f s -> NoDup (map fst (s_cache s)) -> file_nodup f -> ws_intact frepr loads_s loads_b f ->
  coll_free frepr loads_s f (map snd (s_cache s) ++ file_vals f) ->
  f9_state f s = false ->
  update_cache_gen frepr loads_s false f s = (f', s', Ok r) ->
  exact loads_s f' /\ listing f' = listing f /\
  exists s'', update_cache_gen frepr loads_s false f' s' = (f', s'', Ok None).
Proof. exact update_cache_before_fix_partial. Qed.
Print Assumptions C08_update_cache_before_fix.

(* ---------------------------------------------------------------- licence for the correspondence
   If the implementation agrees with the model on a recorded history (mismatch_C08 c = false), the
   soundness clause of the oracle holds on every cache file the implementation produced.  The other
   two clauses of the oracle (transparency, exactness) are licensed by the theorems above under their
   stated preconditions (uncorrupted workspace, collision freedom, not an F9 state); they are not
   lifted to the boolean oracle here. *)
Theorem C08_model_holds : forall c, mismatch_C08 c = false ->
  forallb (fun x => match st_obs x with Some o => clause_sound c o | None => true end) (c8_steps c) = true.
Proof. exact model_holds_sound. Qed.
Print Assumptions C08_model_holds.

(* ---------------------------------------------------------------- non-vacuity *)
(* the hypotheses of the transparency and exactness theorems are satisfiable by a non-trivial state: the
   witness project (one job left, a cache file with two sound entries, one of them stale: an F9 state) *)
Example C08_example_hypotheses :
  Inv ex_fr ex_f9_fs fresh /\ ws_intact ex_fr ex_ls ex_lb ex_f9_fs /\ file_nodup ex_f9_fs /\
  listing ex_f9_fs = [calc_id ex_fr ex_u1] /\
  cache_file ex_f9_fs = Some [(calc_id ex_fr ex_u0, ex_u0); (calc_id ex_fr ex_u1, ex_u1)] /\
  f9_state ex_f9_fs fresh = true.
Proof. exact ex_f9_hyps. Qed.

(* on that state (stale file, new session) update_cache() now rewrites the file to the one remaining job; the
   comparison before the fix returned None and left it (the F9 witness, replayed by harness/c08.py DIRECTED[0]) *)
Example C08_example_fix :
  (exists f' s', update_cache ex_fr ex_ls ex_f9_fs fresh = (f', s', Ok (Some 1%N)) /\
                 cache_file f' = Some [(calc_id ex_fr ex_u1, ex_u1)]) /\
  (exists s', update_cache_gen ex_fr ex_ls false ex_f9_fs fresh = (ex_f9_fs, s', Ok None)).
Proof. split; [exact ex_fixed|exact ex_before_fix]. Qed.

(* collision freedom is satisfiable: on the witness every cached value equals the workspace value *)
Example C08_example_coll_free :
  coll_free ex_fr ex_ls ex_f9_fs (map snd (s_cache fresh) ++ file_vals ex_f9_fs).
Proof. exact ex_coll_free. Qed.
