(* C03 — the workspace equals a simple model after any history of API operations. *)
From SV Require Import Base Json MD5 Canon FS Ws WsLemmas WsInit CorrC02 CorrC03 C03Proofs.

Theorem C03_placeholder_spec_initial : ss_projs ss0 = [].
Proof. reflexivity. Qed.
Print Assumptions C03_placeholder_spec_initial.
