(* C03 — the workspace equals a simple model after any history of API operations.
   This file only states theorems; proofs live in SV.C03Proofs (and SV.C02Proofs / SV.C04Proofs / SV.FS).

   Two levels.  SIMPLE MODEL: one workspace is a finite map  id |-> sub-tree of the job  (SV.C03Proofs.amap), the
   operations are the one-line updates [astep] (create / re-key / remove / nothing).  CONCRETE: the file-system
   programs of SV.Ws.  [absj] reads the map off the tree, defined exactly on the names that count as jobs.

   FULL STATEMENT WANTED (refine_step / refine_run over the PUBLIC operations through arbitrary handles):
     Inv c -> abs c = a -> forall op, Inv (cstep c op) /\ abs (cstep c op) = sstep a op /\ out_c = out_s,
     with Inv = every listed name is the hash of its parsed state point file, no '~' / '._*' file anywhere,
     len = |iter| = membership, cache soundness, handle coherence; lifted to all finite op lists.
   This is FALSE of the code as it is (and of the faithful model): see the two ..._refuted theorems below (four more
   were repaired in /repo and are theorems / examples now); all concern the handle layer (which store operation a
   public call through a given handle performs).
   PROVED (named _partial where they replace the full statement):
   * the store-level refinement: every life-cycle program, under the pre-conditions of its C02 / C04 theorem, acts
     on the abstraction as the simple model's update (the C03_..._refines_... theorems), any step meeting its get-level
     post-condition refines (C03_refine_step_partial), and the lift to all finite sequences by induction
     (C03_refine_run_partial);
   * the listing clauses in full: only exactly id-named entries count, len = |iteration| = membership,
     one view row per listed name; no backup / temp file after a re-key.
   NOT COVERED by the proofs (covered by the correspondence): move / clone at the abstraction level (their
   get-level theorems are C04_move_ok / C04_clone_ok), clear / reset, document and file writes, update_cache,
   and the derivation of the step pre-conditions from an invariant on handles and cells. *)
From SV Require Import Base Json MD5 Canon FS Ws WsLemmas WsInit CorrC02 CorrC03 C02Proofs C04Proofs C03Proofs.

(* ---- only exactly id-named directories count as jobs (full; the code was repaired: fix 5a38a4a) *)
Theorem C03_only_exact_id_names_listed : forall f wsd i,
  In i (job_dirs f wsd) <-> (get f wsd = Some Dir /\ get f (wsd ++ [i]) <> None /\ is_id i = true).
Proof. exact job_dirs_listed. Qed.
Print Assumptions C03_only_exact_id_names_listed.

Theorem C03_listing_has_no_duplicates : forall f wsd, NoDup (job_dirs f wsd).
Proof. exact job_dirs_NoDup. Qed.
Print Assumptions C03_listing_has_no_duplicates.

(* ---- len / iteration / membership agree, and the fresh view has one row per listed name *)
Theorem C03_len_is_iteration_length : forall frepr w q s,
  snd (step frepr w q (OLen s)) =
  VNum (N.of_nat (length (match snd (step frepr w q (OIds s)) with VStrs l => l | _ => [] end))).
Proof. exact len_is_length_of_ids. Qed.
Print Assumptions C03_len_is_iteration_length.

Theorem C03_membership_iff_listed : forall f wsd i, is_id i = true -> get f wsd = Some Dir ->
  (exists_ f (wsd ++ [i]) = true <-> In i (job_dirs f wsd)).
Proof. exact contains_iff_listed. Qed.
Print Assumptions C03_membership_iff_listed.

Theorem C03_view_rows_are_the_listing : forall frepr f r, map v_id (view frepr f r) = job_dirs f (r ++ [WS]).
Proof. exact view_ids. Qed.
Print Assumptions C03_view_rows_are_the_listing.

(* ---- refinement, store level *)
Theorem C03_refine_step_partial : forall wsd f o f', cstep_ok wsd f o f' ->
  forall k r, absj f' wsd k r = astep (absj f wsd) o k r.
Proof. exact refine_step. Qed.
Print Assumptions C03_refine_step_partial.

Theorem C03_refine_run_partial : forall wsd ops f f', crun_ok wsd f ops f' ->
  forall k r, absj f' wsd k r = fold_left astep ops (absj f wsd) k r.
Proof. exact refine_run. Qed.
Print Assumptions C03_refine_run_partial.

(* the concrete programs meet the step conditions *)
Theorem C03_init_refines_create : forall frepr w h sp,
  (h < length (w_hs w))%nat ->
  h_cell (getH w h) = None -> h_cached (getH w h) = Some sp -> h_id (getH w h) = calc_id frepr sp ->
  is_null sp = false ->
  let wsd := wsp (getS w (h_s (getH w h))) in
  (forall k, (k <= length wsd)%nat -> get (w_fs w) (firstn k wsd) = Some Dir) ->
  (forall q, under (wsd ++ [h_id (getH w h)]) q = true -> get (w_fs w) q = None) ->
  exists w', init frepr false false w h = (w', inl tt) /\
    cstep_ok wsd (w_fs w) (ACreate (h_id (getH w h)) (sp_content frepr sp)) (w_fs w').
Proof. exact init_refines_create. Qed.
Print Assumptions C03_init_refines_create.

Theorem C03_init_of_valid_job_refines_nop : forall frepr susp force w h wsd,
  (let '(w1, r) := sp_access frepr w h in
   exists ci v, r = inl ci /\ load_file frepr w1 (getH w1 h) = inl v) ->
  cstep_ok wsd (w_fs w) ANop (w_fs (fst (init frepr susp force w h))).
Proof. exact init_refines_nop. Qed.
Print Assumptions C03_init_of_valid_job_refines_nop.

Theorem C03_readonly_refines_nop : forall frepr w q o wsd,
  readonly o = true -> cstep_ok wsd (w_fs w) ANop (w_fs (fst (fst (step frepr w q o)))).
Proof. exact readonly_refines_nop. Qed.
Print Assumptions C03_readonly_refines_nop.

Theorem C03_rekey_refines_rekey : forall frepr w ci cf,
  let c := getC w ci in
  let js := c_jobs c in
  let h0 := getH w (hd 0%nat js) in
  let old := h_id h0 in
  let new := calc_id frepr (c_data c) in
  let wsd := wsp (getS w (h_s h0)) in
  let src := wsd ++ [old] in
  let dst := wsd ++ [new] in
  old <> new -> is_null (c_data c) = false -> is_id old = true ->
  js <> [] ->
  (forall j, In j js -> (j < length (w_hs w))%nat /\ h_cell (getH w j) = Some ci /\ h_s (getH w j) = h_s h0) ->
  getCF w ci = src ++ [SPF] ->
  get (w_fs w) (src ++ [SPF]) = Some (File cf) ->
  get (w_fs w) (src ++ [SPT]) = None -> get (w_fs w) (src ++ [TMPPFX ++ SPF]) = None ->
  get (w_fs w) src = Some Dir -> get (w_fs w) wsd = Some Dir ->
  (get (w_fs w) dst = None \/ get (w_fs w) dst = Some Dir) -> has_children (w_fs w) dst = false ->
  exists w', sp_save frepr false w ci = (w', inl tt) /\
    cstep_ok wsd (w_fs w) (ARekey old new (sp_content frepr (c_data c))) (w_fs w').
Proof. exact sp_save_refines_rekey. Qed.
Print Assumptions C03_rekey_refines_rekey.

Theorem C03_rekey_conflict_refines_nop : forall frepr w ci cf,
  let c := getC w ci in
  let h0 := getH w (hd 0%nat (c_jobs c)) in
  let old := h_id h0 in
  let new := calc_id frepr (c_data c) in
  let wsd := wsp (getS w (h_s h0)) in
  old <> new ->
  getCF w ci = wsd ++ [old; SPF] ->
  get (w_fs w) (wsd ++ [old; SPF]) = Some (File cf) ->
  get (w_fs w) (wsd ++ [old; SPT]) = None ->
  get (w_fs w) (wsd ++ [old]) = Some Dir -> get (w_fs w) wsd = Some Dir ->
  get (w_fs w) (wsd ++ [new]) = Some Dir -> has_children (w_fs w) (wsd ++ [new]) = true ->
  exists w', sp_save frepr false w ci = (w', inr (FExn EDestinationExists)) /\
    cstep_ok wsd (w_fs w) ANop (w_fs w').
Proof. exact sp_save_conflict_refines_nop. Qed.
Print Assumptions C03_rekey_conflict_refines_nop.

Theorem C03_remove_refines_remove : forall frepr w h,
  let jd := jobdir w (getH w h) in
  get (w_fs w) jd = Some Dir -> jd <> [] -> getHD w h = None ->
  exists w', remove_job frepr w h = (w', inl tt) /\
    cstep_ok (wsp (getS w (h_s (getH w h)))) (w_fs w) (ARemove (h_id (getH w h))) (w_fs w').
Proof. exact remove_refines_remove. Qed.
Print Assumptions C03_remove_refines_remove.

(* ---- no temporary or backup file is left behind by a re-key *)
Theorem C03_rekey_leaves_no_temp : forall frepr w ci cf,
  let c := getC w ci in
  let js := c_jobs c in
  let h0 := getH w (hd 0%nat js) in
  let old := h_id h0 in
  let new := calc_id frepr (c_data c) in
  let wsd := wsp (getS w (h_s h0)) in
  let src := wsd ++ [old] in
  let dst := wsd ++ [new] in
  old <> new -> is_null (c_data c) = false -> js <> [] ->
  (forall j, In j js -> (j < length (w_hs w))%nat /\ h_cell (getH w j) = Some ci /\ h_s (getH w j) = h_s h0) ->
  getCF w ci = src ++ [SPF] ->
  get (w_fs w) (src ++ [SPF]) = Some (File cf) ->
  get (w_fs w) (src ++ [SPT]) = None -> get (w_fs w) (src ++ [TMPPFX ++ SPF]) = None ->
  get (w_fs w) src = Some Dir -> get (w_fs w) wsd = Some Dir ->
  (get (w_fs w) dst = None \/ get (w_fs w) dst = Some Dir) -> has_children (w_fs w) dst = false ->
  exists w', sp_save frepr false w ci = (w', inl tt) /\
    get (w_fs w') (dst ++ [SPT]) = None /\ get (w_fs w') (dst ++ [TMPPFX ++ SPF]) = None /\
    (forall r, get (w_fs w') (src ++ r) = None).
Proof. exact rekey_leaves_no_temp. Qed.
Print Assumptions C03_rekey_leaves_no_temp.

(* ---- the four handle-layer defects repaired in /repo (5e72814, 270ca63, b6340e2, d38783c): the statements that were
   refuted are now theorems (general form) with a run of the former witness *)
(* a rejected re-key is rolled back in memory too: general form = last conjunct of C04_rekey_conflict *)
Theorem C03_failed_rekey_is_rolled_back_example :
  run wfr w0 0 [ONewSession wA; OOpenSp 0 xa0; OInit 0 false; OOpenSp 0 xa1; OInit 1 false;
                OEdit 0 [] (ESetKey kA (JInt 1)); OSp 0; OEdit 0 [] (ESetKey xB (JInt 0)); OIds 0]
  = [VUnit; VStr (xid xa0); VUnit; VStr (xid xa1); VUnit; VExn EDestinationExists; VJson xa0; VUnit;
     VStrs [xid xa1; xid xa0b0]].
Proof. exact rollback_example. Qed.
Print Assumptions C03_failed_rekey_is_rolled_back_example.

(* init() through a handle whose state point cannot be loaded changes nothing (no empty directory) *)
Theorem C03_init_unloadable_no_effect : forall frepr susp force w h w1 e,
  sp_access frepr w h = (w1, inr e) ->
  exists w', init frepr susp force w h = (w', inr e) /\
    w_fs w' = w_fs w /\ w_tr w' = w_tr w /\ w_hs w' = w_hs w /\ w_cs w' = w_cs w /\ w_ss w' = w_ss w.
Proof. exact init_unloadable_no_effect. Qed.
Print Assumptions C03_init_unloadable_no_effect.

Theorem C03_lazy_handle_example :
  run wfr w0 0 [ONewSession wA; OOpenSp 0 xa0; OInit 0 false; ONewSession wA; OOpenId 1 (xid xa0); ORemove 0;
                OInit 1 false; OCheck 0; OIds 0]
  = [VUnit; VStr (xid xa0); VUnit; VUnit; VStr (xid xa0); VUnit; VExn EJobsCorrupted; VUnit; VStrs []].
Proof. exact lazy_example. Qed.
Print Assumptions C03_lazy_handle_example.

(* open_job(id = ...) only ever resolves to an exactly id-shaped name *)
Theorem C03_open_by_id_requires_id_name : forall f wsd i m, resolve f wsd i = inl m -> is_id m = true.
Proof. exact resolve_requires_id. Qed.
Print Assumptions C03_open_by_id_requires_id_name.

Theorem C03_non_id_name_example :
  let bak := xid xa0 ++ [46; 98; 97; 107]%N in
  run wfr w0 0 [ONewSession wA; OOpenSp 0 xa0; OInit 0 false; OPlantDir (wA ++ [WS; bak]); OOpenId 0 bak; OIds 0; OLen 0]
  = [VUnit; VStr (xid xa0); VUnit; VUnit; VExn EKeyError; VStrs [xid xa0]; VNum 1].
Proof. exact non_id_name_example. Qed.
Print Assumptions C03_non_id_name_example.

(* a moved handle has left its old cell (general form: last conjunct of C04_move_ok) *)
Theorem C03_moved_handle_copy_example :
  run wfr w0 0 [ONewSession wA; ONewSession xwB; OOpenSp 0 xa0; OInit 0 false; OSp 0; OCopy 0; OMove 0 1;
                OEdit 1 [] (ESetKey kA (JInt 2)); OIdPath 0; OIdPath 1; OIds 1; OIds 0]
  = [VUnit; VUnit; VStr (xid xa0); VUnit; VJson xa0; VStr (xid xa0); VUnit; VUnit;
     VIdPath (xid xa0) (xwB ++ [WS; xid xa0]); VIdPath (xid xa2) (wA ++ [WS; xid xa2]); VStrs [xid xa0]; VStrs []].
Proof. exact moved_copy_example. Qed.
Print Assumptions C03_moved_handle_copy_example.

(* ---- where the PUBLIC operations still do not act as the simple model: concrete witnesses in the faithful model,
   each replayed on the real signac in every run (harness/c03.py SCRIPTS; known_findings.d/C03.json tags 3, 4) *)
Theorem C03_refine_step_second_handle_refuted :
  run wfr w0 0 [ONewSession wA; OOpenSp 0 xa0; OInit 0 false; OOpenSp 0 xa0; OSp 1;
                OEdit 0 [] (ESetKey kA (JInt 1)); OEdit 1 [] (ESetKey xB (JInt 0))]
  = [VUnit; VStr (xid xa0); VUnit; VStr (xid xa0); VJson xa0; VUnit; VExn EKeyError].
Proof. exact lock_witness. Qed.
Print Assumptions C03_refine_step_second_handle_refuted.

Theorem C03_refine_step_stale_document_refuted :
  run wfr w0 0 [ONewSession wA; OOpenSp 0 xa0; OInit 0 false; ODocSet 0 kA (JInt 1); OOpenSp 0 xa0; ODoc 1;
                ORemove 0; OInit 0 false; ODocSet 1 xB (JInt 2); ODoc 0]
  = [VUnit; VStr (xid xa0); VUnit; VUnit; VStr (xid xa0); VJson (JObj [(kA, JInt 1)]); VUnit; VUnit; VUnit;
     VJson (JObj [(kA, JInt 1); (xB, JInt 2)])].
Proof. exact stale_doc_witness. Qed.
Print Assumptions C03_refine_step_stale_document_refuted.

(* ---- licence for the correspondence step (partial): on the listing clauses the oracle reads the same
   function of the tree as the model ([tree_ids] of CorrC02 on exact ids vs [job_dirs]); the store-level
   refinement above is what "agrees with the model => equals the simple model" rests on for the covered steps.
   MISSING: the lift of [absj] to the (sp, doc, files) rows of the oracle's [spec_view]. *)
Theorem C03_model_holds_partial : forall frepr f r,
  map v_id (view frepr f r) = job_dirs f (r ++ [WS]) /\
  (forall i, In i (job_dirs f (r ++ [WS])) -> is_id i = true) /\ NoDup (job_dirs f (r ++ [WS])).
Proof.
  intros frepr f r. split; [apply view_ids|]. split; [|apply job_dirs_NoDup].
  intros i H. apply job_dirs_listed in H. destruct H as [_ [_ H]]. exact H.
Qed.
Print Assumptions C03_model_holds_partial.

(* ---- non-vacuity: a reachable run satisfies crun_ok (create, then re-key, then remove), and the abstraction
   computes what the simple model says *)
Example C03_example_run :
  let w1 := exec wfr w0 0 [ONewSession wA; OOpenSp 0 xa0] in
  let w2 := exec wfr w1 0 [OInit 0 false] in
  let w3 := exec wfr w2 0 [OEdit 0 [] (ESetKey kA (JInt 1))] in
  let w4 := exec wfr w3 0 [ORemove 0] in
  let wsd := wA ++ [WS] in
  absj (w_fs w1) wsd (xid xa0) [] = None /\
  absj (w_fs w2) wsd (xid xa0) [SPF] = Some (File (sp_content wfr xa0)) /\
  absj (w_fs w3) wsd (xid xa0) [] = None /\ absj (w_fs w3) wsd (xid xa1) [SPF] = Some (File (sp_content wfr xa1)) /\
  absj (w_fs w3) wsd (xid xa1) [SPT] = None /\
  absj (w_fs w4) wsd (xid xa1) [] = None.
Proof. vm_compute. repeat split; reflexivity. Qed.
