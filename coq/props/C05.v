(* C05 — job and project documents are faithful persistent dicts; buffering is transparent. *)
From SV Require Import Base Json Canon Doc CorrC05 C05Proofs.

Theorem C05_placeholder : merge (JObj [([99%N], JObj [])]) (JObj [([99%N], JNull)]) = JObj [([99%N], JObj [])].
Proof. exact merge_null_container_example. Qed.
Print Assumptions C05_placeholder.
