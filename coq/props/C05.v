(* C05 — job and project documents are faithful persistent dicts; buffering is transparent.
   This file only states theorems; proofs live in SV.C05Proofs.  The model is SV.Doc:
   plain dict/list semantics ([plain_step]), the synced-collection protocol of the dependency ([cstep]: every
   collection merges the file into its own memory — [merge] = SyncedDict._update — applies the operation, writes
   back), the serialized file buffer (entries, capacity, nesting depth, registered collections, forced flush),
   and signac's part: which file a Job/Project object's document resolves to ([jstep]).

   FULL STATEMENTS and what is proved of them
   (doc_faithful)        for all op lists through any number of collections: value read back = file = fold of
                         plain dict semantics.  FALSE of the faithful model (and of the code):
                         C05_doc_faithful_refuted (None cannot replace a nested dict through update/reset/reload)
                         and, type-exactly, C05_doc_faithful_typed_refuted (an existing value that compares ==
                         is kept: 1 stays 1 when True is stored).  Proved: C05_doc_faithful_partial — for one
                         up-to-date collection per file, every operation acts on the file as the pure function
                         [doc_apply merge] and leaves collection and file equal; for every operation other than
                         update()/reset() that function IS the plain dict operation (C05_merge_free_is_plain).
                         Missing: the multi-collection statement up to Python == for None-free values (needs the
                         congruence of == under merge; not proved).
   (buffer_transparent)  for all programs with nested enter/exit, capacities, several files: files at depth 0 =
                         files of the unbuffered run.  FALSE when two collections share a file inside a block:
                         C05_buffer_transparent_refuted.  Proved: C05_buffer_transparent_partial — one collection
                         per file, ALL operations, any nesting / capacities / set_buffer_capacity: every result
                         (hence every read inside a block) equals the unbuffered run's, memories are equal, and at
                         depth 0 every document equals the unbuffered run's (an absent file = empty document).
   (read_own_writes)     FALSE with a second collection on the file and a small capacity:
                         C05_read_own_writes_refuted; for one collection per file it is part of
                         C05_buffer_transparent_partial (all results equal those of the unbuffered run).
   (doc_handle_follows)  proved: C05_doc_handle_follows_rekey / _copy / _remove / _op. *)
From SV Require Import Base Json Canon Doc CorrC05 C05Proofs.

Theorem C05_buffer_transparent_partial : forall (frepr : fl -> str) prog st0,
  good_init st0 -> forallb (fun it => negb (is_new it)) prog = true ->
  let '(B, rb) := crun frepr merge (fun k : N => k) st0 prog in
  let '(U, ru) := crun frepr merge (fun k : N => k) st0 (strip prog) in
  keep prog rb = ru /\
  (forall h, nlookup h (mems B) = nlookup h (mems U)) /\
  (depth B = 0%nat ->
     (forall h f m, nlookup h (mems B) = Some (f, m) -> fcontent B f = fcontent U f) /\
     (forall f, (forall h m, nlookup h (mems B) <> Some (f, m)) -> nlookup f (files B) = nlookup f (files U))).
Proof. exact buffer_transparent_single. Qed.
Print Assumptions C05_buffer_transparent_partial.

(* the simulation invariant behind it is preserved by every item, for the buffered run against the unbuffered one *)
Theorem C05_simulation_step : forall (frepr : fl -> str) B U it,
  Inv B U -> is_new it = false ->
  let '(B', rB) := cstep frepr merge (fun k : N => k) B it in
  if unbuffered_item it
  then let '(U', rU) := cstep frepr merge (fun k : N => k) U it in rB = rU /\ Inv B' U'
  else Inv B' U.
Proof. exact cstep_sim. Qed.
Print Assumptions C05_simulation_step.

Theorem C05_buffer_transparent_refuted :
  let B := fst (crun fr0 merge (fun k : N => k) core0 prog_lost) in
  let U := fst (crun fr0 merge (fun k : N => k) core0 (strip prog_lost)) in
  depth B = 0%nat /\ fcontent B 1 = JObj [] /\ fcontent U 1 = JObj [(kx, JInt 1)].
Proof. exact buffer_transparent_refuted_w. Qed.
Print Assumptions C05_buffer_transparent_refuted.

Theorem C05_read_own_writes_refuted :
  nth 6 (snd (crun fr0 merge (fun k : N => k) core0 prog_own)) (Err EOther) = Ok JNull /\
  nth 7 (snd (crun fr0 merge (fun k : N => k) core0 prog_own)) (Err EOther) = Ok (JObj []).
Proof. exact read_own_writes_refuted_w. Qed.
Print Assumptions C05_read_own_writes_refuted.

Theorem C05_doc_faithful_partial : forall (frepr : fl -> str) st h f d p o,
  uptodate st h f d ->
  let '(st', r) := cop frepr merge (fun k : N => k) st h p o in
  let '(d', r') := doc_apply merge p o d in
  r = r' /\ uptodate st' h f (if is_read o then d else d') /\
  (forall f0, f0 <> f -> nlookup f0 (files st') = nlookup f0 (files st)) /\
  (forall x, x <> h -> nlookup x (mems st') = nlookup x (mems st)).
Proof. exact ucop_spec. Qed.
Print Assumptions C05_doc_faithful_partial.

Theorem C05_merge_free_is_plain : forall p o d, merge_free o = true -> doc_apply merge p o d = plain_step p o d.
Proof. exact doc_apply_plain. Qed.
Print Assumptions C05_merge_free_is_plain.

Theorem C05_doc_faithful_refuted :
  exists v, nth 3 (snd (crun fr0 merge (fun k : N => k) core0 prog_none)) (Err EOther) = Ok v /\
            fcontent (fst (crun fr0 merge (fun k : N => k) core0 prog_none)) 1 = v /\
            plain_none = JObj [(kc, JNull)] /\ py_eq v plain_none = false.
Proof. exact doc_faithful_refuted_w. Qed.
Print Assumptions C05_doc_faithful_refuted.

Theorem C05_doc_faithful_typed_refuted :
  nth 3 (snd (crun fr0 merge (fun k : N => k) core0 prog_typed)) (Err EOther) = Ok (JObj [(kx, JInt 1)]) /\
  fst (plain_step [] (OUpdate [(kx, JBool true)]) (JObj [(kx, JInt 1)])) = JObj [(kx, JBool true)] /\
  py_eq (JObj [(kx, JInt 1)]) (JObj [(kx, JBool true)]) = true.
Proof. exact doc_faithful_typed_refuted_w. Qed.
Print Assumptions C05_doc_faithful_typed_refuted.

Theorem C05_doc_handle_follows_rekey : forall (frepr : fl -> str) js j f f' d,
  nlookup j (jobs js) = Some (f, d) -> f <> f' -> nmem f (dirs js) = true -> nmem f' (dirs js) = false -> f' <> 0%N -> f' <> 10%N ->
  let js1 := fst (jstep frepr merge (fun k : N => k) js (JRekey j f')) in
  snd (jstep frepr merge (fun k : N => k) js (JRekey j f')) = Ok JNull /\
  nlookup j (jobs js1) = Some (f', None) /\
  nlookup f' (files (core js1)) = nlookup f (files (core js)) /\
  nlookup f (files (core js1)) = None /\
  exists js2 h, resolve_doc frepr merge (fun k : N => k) js1 j = Some (js2, h) /\
                nlookup h (mems (core js2)) = Some (f', empty_obj) /\ nmem f' (dirs js2) = true.
Proof. exact follow_rekey. Qed.
Print Assumptions C05_doc_handle_follows_rekey.

(* shallow copies (copy.copy of a Job object, taken before its document was accessed) share the state point: a state
   point change through one re-keys all.  In the programs of the correspondence the copy becomes an object for the new
   id right after the re-key (item "follow", no action on the implementation); it then names the same document file
   as the object the change was made through (added with seeded change C05-11) *)
Theorem C05_doc_handle_follows_copy : forall (frepr : fl -> str) js j c f f' d prov,
  c <> j -> prov <> prov_symlink ->
  nlookup j (jobs js) = Some (f, d) -> f <> f' -> nmem f (dirs js) = true -> nmem f' (dirs js) = false ->
  let js1 := fst (jstep frepr merge (fun k : N => k) js (JRekey j f')) in
  let js2 := fst (jstep frepr merge (fun k : N => k) js1 (JOpen c f' prov)) in
  snd (jstep frepr merge (fun k : N => k) js1 (JOpen c f' prov)) = Ok JNull /\
  nlookup c (jobs js2) = Some (f', None) /\ nlookup j (jobs js2) = Some (f', None) /\
  core js2 = core js1 /\ dirs js2 = dirs js1.
Proof. exact follow_copy. Qed.
Print Assumptions C05_doc_handle_follows_copy.

Theorem C05_doc_handle_follows_move : forall (frepr : fl -> str) js j f d,
  nlookup j (jobs js) = Some (f, d) -> nmem f (dirs js) = true -> nmem (f + 10)%N (dirs js) = false -> f <> 0%N ->
  let js1 := fst (jstep frepr merge (fun k : N => k) js (JMove j)) in
  snd (jstep frepr merge (fun k : N => k) js (JMove j)) = Ok JNull /\
  nlookup j (jobs js1) = Some ((f + 10)%N, None) /\
  nlookup (f + 10)%N (files (core js1)) = nlookup f (files (core js)) /\
  nlookup f (files (core js1)) = None /\
  exists js2 h, resolve_doc frepr merge (fun k : N => k) js1 j = Some (js2, h) /\
                nlookup h (mems (core js2)) = Some ((f + 10)%N, empty_obj) /\ nmem (f + 10)%N (dirs js2) = true.
Proof. exact follow_move. Qed.
Print Assumptions C05_doc_handle_follows_move.

Theorem C05_doc_handle_follows_remove : forall (frepr : fl -> str) js j f d,
  nlookup j (jobs js) = Some (f, d) -> nmem f (dirs js) = true -> depth (core js) = 0%nat ->
  let js1 := fst (jstep frepr merge (fun k : N => k) js (JRemove j)) in
  nlookup j (jobs js1) = Some (f, None) /\ nlookup f (files (core js1)) = None /\ nmem f (dirs js1) = false /\
  exists js2 h, resolve_doc frepr merge (fun k : N => k) js1 j = Some (js2, h) /\
                nlookup h (mems (core js2)) = Some (f, empty_obj) /\ h = nexth js.
Proof. exact follow_remove. Qed.
Print Assumptions C05_doc_handle_follows_remove.

Theorem C05_doc_handle_follows_op : forall (frepr : fl -> str) js j f p o,
  nlookup j (jobs js) = Some (f, None) ->
  exists js1 h, resolve_doc frepr merge (fun k : N => k) js j = Some (js1, h) /\ nlookup h (mems (core js1)) = Some (f, empty_obj) /\
                jstep frepr merge (fun k : N => k) js (JOp j p o) =
                  (with_core js1 (fst (cstep frepr merge (fun k : N => k) (core js1) (COp h p o))),
                   snd (cstep frepr merge (fun k : N => k) (core js1) (COp h p o))).
Proof. exact follow_op. Qed.
Print Assumptions C05_doc_handle_follows_op.

(* remove() inside a buffered block (added with seeded change C05-3).  The model follows the dependency: the
   dropped handle's clear() goes to the buffer, the entry outlives the file, the flush checks the file's metadata
   and its directory.  When the document file existed and was buffered in the block the exit raises BufferedError
   and the data buffered for the re-created job is dropped (known finding 3) ... *)
Theorem C05_remove_in_block_refuted :
  let obs := jrun fr0 merge (init_js 33554432) prog_remove_in_block in
  map o_ret (skipn 5 obs) = [Ok (JObj []); Ok JNull; Err ERuntimeError] /\
  o_files (last obs (model_obs (init_js 0) (Ok JNull))) = [].
Proof. exact remove_in_block_refuted_w. Qed.
Print Assumptions C05_remove_in_block_refuted.

(* ... while a job whose document was not on disk before the block starts afresh after remove()+init() and the
   block leaves exactly the unbuffered run's file *)
Theorem C05_remove_in_block_fresh :
  let obs := jrun fr0 merge (init_js 33554432) prog_remove_fresh in
  map o_ret (skipn 6 obs) = [Ok (JObj []); Ok (JBool true); Ok JNull] /\
  o_files (last obs (model_obs (init_js 0) (Ok JNull))) = [(1%N, JObj [(kx, JBool true)])].
Proof. exact remove_in_block_fresh_w. Qed.
Print Assumptions C05_remove_in_block_fresh.

(* handle provenance / working directory (added with seeded change C05-5).  MODELLING STEP: a document is identified
   by project + job; buffer and files are keyed by the canonical absolute file name.  The model's run does not depend
   on how a Job/Project object was obtained nor on chdir; all handles on one project/job are one equivalence class.
   That the implementation canonicalises the file name is in the trusted base and checked by the correspondence on
   every provenance it generates (init_project, get_project absolute/relative, signac.Project(relative),
   signac.Project(path with '..' and trailing slash), and — unbuffered only — a symlinked prefix). *)
Theorem C05_provenance_irrelevant : forall (frepr : fl -> str) prog js,
  jrun frepr merge js (erase_prov prog) = jrun frepr merge js prog.
Proof. exact jrun_provenance. Qed.
Print Assumptions C05_provenance_irrelevant.

Theorem C05_cwd_irrelevant : forall (frepr : fl -> str) canon js d, jstep frepr merge canon js (JCwd d) = (js, Ok JNull).
Proof. exact cwd_irrelevant. Qed.
Print Assumptions C05_cwd_irrelevant.

(* ... the one provenance that is NOT in the class, on the unchanged code too: a project path through a symlinked
   prefix spells its file names differently (abspath does not resolve links), the buffer holds two entries for one
   file: BufferedError on exit and the write of the object flushed second is lost (known finding 4; [erase_prov]
   keeps exactly this provenance).  The core theorems above are for canonical paths (key = file). *)
Theorem C05_symlink_two_keys_refuted :
  let obs := jrun fr0 merge (init_js 33554432) prog_symlink in
  map o_ret (skipn 6 obs) = [Err ERuntimeError] /\
  o_files (last obs (model_obs (init_js 0) (Ok JNull))) = [(1%N, JObj [(kc, JInt 2)])].
Proof. exact symlink_two_keys_refuted_w. Qed.
Print Assumptions C05_symlink_two_keys_refuted.

(* licence for the correspondence step: when the implementation's observations ARE the model's, the oracle's
   verdict on the implementation is its verdict on the model run (and there is no mismatch iff the model agrees
   with itself).  The harness reports how many cases agree exactly; the others are compared up to key order. *)
Theorem C05_model_holds : forall c,
  agree_exact c = true -> holds_C05 c = holds_C05 (with_model_obs c) /\ mismatch_C05 c = mismatch_C05 (with_model_obs c).
Proof. exact model_holds_C05. Qed.
Print Assumptions C05_model_holds.

(* non-vacuity of [good_init]: two fresh collections on two files, one of which already exists with content *)
Example C05_example_good_init :
  good_init {| files := [(2%N, JObj [([97%N], JInt 1)])];
               mems := [(1%N, (1%N, empty_obj)); (2%N, (2%N, empty_obj))];
               buf := []; reg := []; cap := 10%N; caps := []; depth := 0;
               dk := {| vers := [(2%N, 1%N)]; clock := 2%N; nowrite := []; ferr := false; oerr := false |} |}.
Proof.
  split; [reflexivity|]. split; [reflexivity|]. split; [reflexivity|]. split; [reflexivity|]. split.
  - intros h h' f m m' H1 H2. simpl in *.
    destruct (N.eqb h 1) eqn:E1; [|destruct (N.eqb h 2) eqn:E2; [|discriminate]];
      (destruct (N.eqb h' 1) eqn:E3; [|destruct (N.eqb h' 2) eqn:E4; [|discriminate]]);
      inversion H1; inversion H2; subst; try discriminate;
      repeat match goal with H : N.eqb _ _ = true |- _ => apply N.eqb_eq in H end; congruence.
  - intros h f m H. simpl in H.
    destruct (N.eqb h 1); [inversion H; subst; split; [exists []; reflexivity|reflexivity]|].
    destruct (N.eqb h 2); [|discriminate]. inversion H; subst. split; [exists []; reflexivity|].
    simpl. split; [apply merge_empty|eexists; reflexivity].
Qed.

(* ... and a program with nested blocks, a capacity argument and set_buffer_capacity satisfies the side condition *)
Example C05_example_prog :
  forallb (fun it => negb (is_new it))
    [CEnter None; COp 1 [] (OSet [120%N] (JInt 1)); CEnter (Some 0%N); COp 2 [PKey [97%N]] OGet; CSetCap 5%N; CExit; CExit] = true.
Proof. reflexivity. Qed.
