(* C04 — re-keying, moving and cloning carry all data and never clobber another job. *)
From SV Require Import Base Json MD5 Canon FS Ws CorrC02 CorrC04 C04Proofs.

Theorem C04_rollback_restores_tree : forall f a t c f1 f2,
  get f a = Some (File c) -> get f t = None ->
  rename f a t = FOk f1 -> rename f1 t a = FOk f2 -> fs_eq f2 f.
Proof. exact rollback_restores. Qed.
Print Assumptions C04_rollback_restores_tree.
