(* C04 — re-keying, moving and cloning carry all data and never clobber another job.
   This file only states theorems; proofs live in SV.C04Proofs / SV.WsInit / SV.FS.
   The model (SV.Ws) mirrors /repo INCLUDING its defects; where the full property is false of the
   faithful model the file contains a ..._refuted theorem with a concrete witness, which the harness
   replays on the real signac (known_findings.d/C04.json). *)
From SV Require Import Base Json MD5 Canon FS Ws WsLemmas WsInit CorrC02 CorrC04 C04Proofs.

(* ---- the rollback rename restores the exact tree (file-system level) *)
Theorem C04_rollback_restores_tree : forall f a t c f1 f2,
  get f a = Some (File c) -> get f t = None ->
  rename f a t = FOk f1 -> rename f1 t a = FOk f2 -> fs_eq f2 f.
Proof. exact rename_file_roundtrip. Qed.
Print Assumptions C04_rollback_restores_tree.

(* ---- re-key (_StatePointDict._save), for every way the cell's data came to differ from the id *)
(* rekey_ok: destination absent OR AN EMPTY DIRECTORY => success; the old id is gone; the new directory holds
   the new state point file (exactly dumps of the new data), no backup file, the document and every other
   file byte-identical at the same relative path; every other entry of the tree is unchanged; every handle
   sharing the cell has the new id, stays in its project and has _cached_statepoint = the new data
   (handles_follow incl. the cached_statepoint conjunct, true since fix aa8b5a9); no other handle changes. *)
Theorem C04_rekey_ok : forall frepr w ci cf,
  let c := getC w ci in
  let js := c_jobs c in
  let h0 := getH w (hd 0%nat js) in
  let old := h_id h0 in
  let new := calc_id frepr (c_data c) in
  let wsd := wsp (getS w (h_s h0)) in
  let src := wsd ++ [old] in
  let dst := wsd ++ [new] in
  old <> new -> is_null (c_data c) = false ->
  js <> [] ->
  (forall j, In j js -> (j < length (w_hs w))%nat /\ h_cell (getH w j) = Some ci /\ h_s (getH w j) = h_s h0) ->
  getCF w ci = src ++ [SPF] ->
  get (w_fs w) (src ++ [SPF]) = Some (File cf) ->
  get (w_fs w) (src ++ [SPT]) = None -> get (w_fs w) (src ++ [TMPPFX ++ SPF]) = None ->
  get (w_fs w) src = Some Dir -> get (w_fs w) wsd = Some Dir ->
  (get (w_fs w) dst = None \/ get (w_fs w) dst = Some Dir) -> has_children (w_fs w) dst = false ->
  exists w', sp_save frepr false w ci = (w', inl tt) /\
    (forall r, get (w_fs w') (src ++ r) = None) /\
    get (w_fs w') dst = Some Dir /\
    get (w_fs w') (dst ++ [SPF]) = Some (File (sp_content frepr (c_data c))) /\
    get (w_fs w') (dst ++ [SPT]) = None /\
    (forall x r, x :: r <> [SPF] -> x :: r <> [SPT] -> get (w_fs w') (dst ++ x :: r) = get (w_fs w) (src ++ x :: r)) /\
    (forall q, under src q = false -> under dst q = false -> get (w_fs w') q = get (w_fs w) q) /\
    (forall j, In j js -> h_id (getH w' j) = new /\ h_s (getH w' j) = h_s h0) /\
    (forall j, In j js -> h_cached (getH w' j) = Some (c_data c)) /\
    (forall k, ~ In k js -> h_cached (getH w' k) = h_cached (getH w k)).
Proof. exact rekey_ok. Qed.
Print Assumptions C04_rekey_ok.

(* rekey_conflict: destination a non-empty directory => DestinationExistsError and THE SAME TREE
   (extensional equality of the whole file system: both jobs byte-identical), handles untouched, and the cell's
   data is merged back from the restored file *)
Theorem C04_rekey_conflict : forall frepr w ci cf,
  let c := getC w ci in
  let h0 := getH w (hd 0%nat (c_jobs c)) in
  let old := h_id h0 in
  let new := calc_id frepr (c_data c) in
  let wsd := wsp (getS w (h_s h0)) in
  old <> new ->
  getCF w ci = wsd ++ [old; SPF] ->
  get (w_fs w) (wsd ++ [old; SPF]) = Some (File cf) ->
  get (w_fs w) (wsd ++ [old; SPT]) = None ->
  get (w_fs w) (wsd ++ [old]) = Some Dir -> get (w_fs w) wsd = Some Dir ->
  get (w_fs w) (wsd ++ [new]) = Some Dir -> has_children (w_fs w) (wsd ++ [new]) = true ->
  exists w', sp_save frepr false w ci = (w', inr (FExn EDestinationExists)) /\
    fs_eq (w_fs w') (w_fs w) /\ w_hs w' = w_hs w /\ w_ss w' = w_ss w /\
    (* the in-memory state point is rolled back too (fix 5e72814): merged back from the restored file *)
    w_cs w' = set_nth ci (mkC (match c_json cf with Some v => snd (upd_root (c_data c) v) | None => c_data c end)
                              (c_jobs c)) (w_cs w).
Proof. exact rekey_conflict. Qed.
Print Assumptions C04_rekey_conflict.

(* rekey_noop: the new data hashes to the current id => no step at all (the world is returned as is) *)
Theorem C04_rekey_noop : forall frepr susp w ci,
  calc_id frepr (c_data (getC w ci)) = h_id (getH w (hd 0%nat (c_jobs (getC w ci)))) ->
  sp_save frepr susp w ci = (w, inl tt).
Proof. exact rekey_noop. Qed.
Print Assumptions C04_rekey_noop.

(* ---- move *)
Theorem C04_move_ok : forall frepr w h sj w1 ci,
  sp_access frepr w h = (w1, inl ci) ->
  let src := jobdir w1 (getH w1 h) in
  let d := c_data (getC w1 ci) in
  let dst := wsp (getS w1 sj) ++ [calc_id frepr d] in
  get (w_fs w) (wsp (getS w1 sj)) = Some Dir ->
  get (w_fs w) src = Some Dir -> src <> dst -> under src dst = false -> under dst src = false ->
  (get (w_fs w) dst = None \/ get (w_fs w) dst = Some Dir) -> has_children (w_fs w) dst = false ->
  (h < length (w_hs w))%nat ->
  exists w', move frepr w h sj = (w', inl tt) /\
    (forall r, get (w_fs w') (dst ++ r) = get (w_fs w) (src ++ r)) /\
    (forall r, get (w_fs w') (src ++ r) = None) /\
    (forall q, under src q = false -> under dst q = false -> get (w_fs w') q = get (w_fs w) q) /\
    getH w' h = mkH sj (calc_id frepr d) (Some d) None false /\
    ~ In h (c_jobs (getC w' ci)).            (* fix d38783c: it has left the _jobs of its old state point object *)
Proof. exact move_ok. Qed.
Print Assumptions C04_move_ok.

Theorem C04_move_conflict : forall frepr w h sj w1 ci,
  sp_access frepr w h = (w1, inl ci) ->
  let src := jobdir w1 (getH w1 h) in
  let dst := wsp (getS w1 sj) ++ [calc_id frepr (c_data (getC w1 ci))] in
  get (w_fs w) (wsp (getS w1 sj)) = Some Dir ->
  get (w_fs w) src = Some Dir -> get (w_fs w) dst = Some Dir -> has_children (w_fs w) dst = true ->
  src <> dst -> under src dst = false ->
  exists w', move frepr w h sj = (w', inr (FExn EDestinationExists)) /\ w_fs w' = w_fs w /\ w_hs w' = w_hs w1.
Proof. exact move_conflict. Qed.
Print Assumptions C04_move_conflict.

Theorem C04_move_uninitialised : forall frepr w h sj w1 ci,
  sp_access frepr w h = (w1, inl ci) ->
  get (w_fs w) (wsp (getS w1 sj)) = Some Dir ->
  get (w_fs w) (jobdir w1 (getH w1 h)) = None ->
  exists w', move frepr w h sj = (w', inr (FExn ERuntimeError)) /\ w_fs w' = w_fs w /\ w_hs w' = w_hs w1.
Proof. exact move_uninitialised. Qed.
Print Assumptions C04_move_uninitialised.

(* ---- clone *)
(* clone_ok + clone_source_untouched + clone_independent (the copy is a separate sub-tree; the new handle
   has no cell, so nothing is shared with the source handle) *)
Theorem C04_clone_ok : forall frepr w sj h w1 ci,
  sp_access frepr w h = (w1, inl ci) ->
  let src := jobdir w1 (getH w1 h) in
  let wsd := wsp (getS w1 sj) in
  let d := c_data (getC w1 ci) in
  let dst := wsd ++ [calc_id frepr d] in
  get (w_fs w) src = Some Dir -> under src dst = false -> under dst src = false ->
  (forall k, (k <= length wsd)%nat -> get (w_fs w) (firstn k wsd) = Some Dir) ->
  (forall q, under dst q = true -> get (w_fs w) q = None) ->
  exists w' hn, clone frepr w sj h = (w', inl hn) /\
    get (w_fs w') dst = Some Dir /\
    (forall x r, get (w_fs w') (dst ++ x :: r) = get (w_fs w) (src ++ x :: r)) /\
    (forall q, under dst q = false -> get (w_fs w') q = get (w_fs w) q) /\
    getH w' hn = mkH sj (calc_id frepr d) (Some d) None false /\ hn = length (w_hs w1).
Proof. exact clone_ok. Qed.
Print Assumptions C04_clone_ok.

(* clone_conflict: ANY existing destination — also an empty directory, where copytree fails *)
Theorem C04_clone_conflict : forall frepr w sj h w1 ci x,
  sp_access frepr w h = (w1, inl ci) ->
  let src := jobdir w1 (getH w1 h) in
  let wsd := wsp (getS w1 sj) in
  let dst := wsd ++ [calc_id frepr (c_data (getC w1 ci))] in
  get (w_fs w) src = Some Dir -> under src dst = false ->
  (forall k, (k <= length wsd)%nat -> get (w_fs w) (firstn k wsd) = Some Dir) ->
  get (w_fs w) dst = Some x ->
  clone frepr w sj h = (w1, inr (FExn EDestinationExists)) /\ w_fs w1 = w_fs w.
Proof. exact clone_conflict. Qed.
Print Assumptions C04_clone_conflict.

Theorem C04_clone_uninitialised : forall frepr w sj h w1 ci,
  sp_access frepr w h = (w1, inl ci) ->
  get (w_fs w) (jobdir w1 (getH w1 h)) = None ->
  clone frepr w sj h = (w1, inr (FExn EValueError)) /\ w_fs w1 = w_fs w.
Proof. exact clone_uninitialised. Qed.
Print Assumptions C04_clone_uninitialised.

(* ---- update_statepoint without overwrite never alters an existing key *)
Theorem C04_update_statepoint_no_overwrite : forall frepr w h u w1 ci,
  sp_access frepr w h = (w1, inl ci) -> update_conflict (c_data (getC w1 ci)) u = true ->
  update_statepoint frepr w h u false = (w1, inr (FExn EKeyError)) /\
  w_fs w1 = w_fs w /\ w_tr w1 = w_tr w.
Proof. exact update_statepoint_no_overwrite. Qed.
Print Assumptions C04_update_statepoint_no_overwrite.

(* ---- handles_follow.
   FULL STATEMENT WANTED: after a successful re-key through a handle, every live copy shows id, path,
   statepoint, cached_statepoint and document of the new job.
   PROVED (in C04_rekey_ok) for every handle in the cell's _jobs list: id, project (hence path and document
   file), cached_statepoint; statepoint is the shared cell.  C04_handles_follow_example runs it.
   Since fix 0894ce6 every copy.copy is in _jobs (C04_copy_shares_cell below). *)
Theorem C04_handles_follow_example :
  let old := JObj [(kA, JInt 0)] in let new := JObj [(kA, JInt 1)] in
  run wfr w0 0 [ONewSession wA; OOpenSp 0 old; OInit 0 false; OCopy 0; OEdit 0 [] (ESetKey kA (JInt 1));
                OIdPath 1; OSp 1; OCached 1; OCached 0]
  = [VUnit; VStr (calc_id wfr old); VUnit; VStr (calc_id wfr old); VUnit;
     VIdPath (calc_id wfr new) (wA ++ [WS; calc_id wfr new]); VJson new; VJson new; VJson new].
Proof. exact follow_example. Qed.
Print Assumptions C04_handles_follow_example.

(* copies made at ANY time follow (fix 0894ce6): copy.copy instantiates the original's state point first, shares the
   cell and registers itself in its _jobs, so the "every handle in _jobs" clauses of C04_rekey_ok apply to it *)
Theorem C04_copy_shares_cell : forall frepr w h w' hj,
  (h < length (w_hs w))%nat -> copy_handle frepr w h = (w', inl hj) ->
  exists ci, h_cell (getH w' h) = Some ci /\ h_cell (getH w' hj) = Some ci /\
             h_id (getH w' hj) = h_id (getH w' h) /\ h_s (getH w' hj) = h_s (getH w' h) /\
             (ci < length (w_cs w') -> In hj (c_jobs (getC w' ci))).
Proof. exact copy_shares_cell. Qed.
Print Assumptions C04_copy_shares_cell.

Theorem C04_handles_follow_early_copy_example :
  let old := JObj [(kA, JInt 0)] in let new := JObj [(kA, JInt 1)] in
  run wfr w0 0 [ONewSession wA; OOpenSp 0 old; OInit 0 false; ONewSession wA; OOpenId 1 (calc_id wfr old);
                OCopy 1; OEdit 1 [] (ESetKey kA (JInt 1)); OIdPath 1; OIdPath 2; OSp 2; OCached 2]
  = [VUnit; VStr (calc_id wfr old); VUnit; VUnit; VStr (calc_id wfr old); VStr (calc_id wfr old); VUnit;
     VIdPath (calc_id wfr new) (wA ++ [WS; calc_id wfr new]);
     VIdPath (calc_id wfr new) (wA ++ [WS; calc_id wfr new]); VJson new; VJson new].
Proof. exact early_copy_example. Qed.
Print Assumptions C04_handles_follow_early_copy_example.

(* ---- "whenever the state point changes by ANY route the job reappears under the new id": refuted for
   whole assignment / update_statepoint when the change compares == in Python (SyncedDict._update; tag 3) *)
Theorem C04_assign_equal_value_refuted :
  let old := JObj [(kA, JInt 1)] in let new := JObj [(kA, JBool true)] in
  calc_id wfr old <> calc_id wfr new /\
  run wfr w0 0 [ONewSession wA; OOpenSp 0 old; OInit 0 false; OAssign 0 new; OIdPath 0; OSp 0; OIds 0]
  = [VUnit; VStr (calc_id wfr old); VUnit; VUnit;
     VIdPath (calc_id wfr old) (wA ++ [WS; calc_id wfr old]); VJson old; VStrs [calc_id wfr old]].
Proof. exact assign_drop_witness. Qed.
Print Assumptions C04_assign_equal_value_refuted.

(* whole assignment is ONE re-key with the merged data (the root saves that nested lists trigger in the
   middle of SyncedList._update return at once since fix 3806f72), so C04_rekey_ok / _conflict / _noop
   apply to it verbatim; the example changes and extends a list in place together with another key *)
Theorem C04_assign_single_rekey : forall frepr w ci new,
  cell_reset frepr w ci new = sp_save frepr false (set_data w ci (snd (upd_root (c_data (getC w ci)) new))) ci.
Proof. exact cell_reset_single_rekey. Qed.
Print Assumptions C04_assign_single_rekey.

Theorem C04_save_suspended_noop : forall frepr w ci, sp_save frepr true w ci = (w, inl tt).
Proof. exact sp_save_suspended. Qed.
Print Assumptions C04_save_suspended_noop.

Theorem C04_assign_list_example :
  let old := JObj [(kA, JArr [JInt 1; JInt 2]); ([120%N], JInt 0)] in
  let new := JObj [(kA, JArr [JInt 1; JInt 3; JInt 4]); ([120%N], JInt 1)] in
  run wfr w0 0 [ONewSession wA; OOpenSp 0 old; OInit 0 false; OAssign 0 new; OIds 0; OSp 0; OCached 0; OIdPath 0]
  = [VUnit; VStr (calc_id wfr old); VUnit; VUnit; VStrs [calc_id wfr new]; VJson new; VJson new;
     VIdPath (calc_id wfr new) (wA ++ [WS; calc_id wfr new])].
Proof. exact assign_list_example. Qed.
Print Assumptions C04_assign_list_example.

(* ---- licence for the correspondence step (partial).
   FULL STATEMENT WANTED: forall c, mismatch_C04 c = false -> known_tag ... = 0 -> holds_C04 c = true.
   PROVED: in the conflict situation the model's own observation satisfies the oracle's conflict clause
   (exception class DestinationExistsError and tree_same_except [] pre post = true), so an implementation
   that agrees with the model there satisfies the oracle there; the success clauses of the oracle are the
   get-level statements of C04_rekey_ok / C04_move_ok / C04_clone_ok.
   MISSING: the lift of those statements through the list-level oracle (rel_tree / tree_same_except) and
   over the whole scenario script. *)
Theorem C04_model_holds_partial : forall frepr w ci cf,
  let c := getC w ci in
  let h0 := getH w (hd 0%nat (c_jobs c)) in
  let old := h_id h0 in
  let new := calc_id frepr (c_data c) in
  let wsd := wsp (getS w (h_s h0)) in
  old <> new ->
  getCF w ci = wsd ++ [old; SPF] ->
  get (w_fs w) (wsd ++ [old; SPF]) = Some (File cf) ->
  get (w_fs w) (wsd ++ [old; SPT]) = None ->
  get (w_fs w) (wsd ++ [old]) = Some Dir -> get (w_fs w) wsd = Some Dir ->
  get (w_fs w) (wsd ++ [new]) = Some Dir -> has_children (w_fs w) (wsd ++ [new]) = true ->
  let '(w', r) := sp_save frepr false w ci in
  out_unit r = VExn EDestinationExists /\ tree_same_except [] (w_fs w) (w_fs w') = true.
Proof. exact conflict_oracle_clause. Qed.
Print Assumptions C04_model_holds_partial.

(* ---- non-vacuity: the hypotheses of C04_rekey_ok / C04_rekey_conflict hold in reachable worlds *)
Definition ex_old : json := JObj [(kA, JInt 0)].
Definition ex_new : json := JObj [(kA, JInt 1)].
Definition ex_doc : json := JObj [([100%N], JInt 1)].

(* Project(A); h = open_job({a:0}).init(); h.document = {d:1}; a copy.copy; then the cell's data is set to {a:1} *)
Definition ex_w_ok : world :=
  set_data (exec wfr w0 0 [ONewSession wA; OOpenSp 0 ex_old; OInit 0 false; ODocReset 0 ex_doc; OCopy 0]) 0 ex_new.

Example C04_example_rekey_ok_hyps :
  let w := ex_w_ok in
  let c := getC w 0 in
  let wsd := wA ++ [WS] in
  let src := wsd ++ [calc_id wfr ex_old] in
  let dst := wsd ++ [calc_id wfr ex_new] in
  c_jobs c = [0; 1]%nat /\ h_id (getH w 0) = calc_id wfr ex_old /\ calc_id wfr (c_data c) = calc_id wfr ex_new /\
  calc_id wfr ex_old <> calc_id wfr ex_new /\
  h_cell (getH w 0) = Some 0%nat /\ h_cell (getH w 1) = Some 0%nat /\ length (w_hs w) = 2%nat /\
  getCF w 0 = src ++ [SPF] /\
  (exists cf, get (w_fs w) (src ++ [SPF]) = Some (File cf)) /\
  get (w_fs w) (src ++ [SPT]) = None /\ get (w_fs w) (src ++ [TMPPFX ++ SPF]) = None /\
  get (w_fs w) src = Some Dir /\ get (w_fs w) wsd = Some Dir /\ get (w_fs w) dst = None /\
  has_children (w_fs w) dst = false /\
  (exists cd, get (w_fs w) (src ++ [DOCF]) = Some (File cd)).
Proof. vm_compute. repeat split; eauto; discriminate. Qed.

(* the same with the destination {a:1} initialised and holding a document: the conflict situation *)
Definition ex_w_conflict : world :=
  set_data (exec wfr w0 0 [ONewSession wA; OOpenSp 0 ex_old; OInit 0 false; OOpenSp 0 ex_new; OInit 1 false;
                           ODocReset 1 ex_doc]) 0 ex_new.

Example C04_example_rekey_conflict_hyps :
  let w := ex_w_conflict in
  let wsd := wA ++ [WS] in
  let old := calc_id wfr ex_old in let new := calc_id wfr ex_new in
  h_id (getH w (hd 0%nat (c_jobs (getC w 0)))) = old /\ calc_id wfr (c_data (getC w 0)) = new /\ old <> new /\
  getCF w 0 = wsd ++ [old; SPF] /\
  (exists cf, get (w_fs w) (wsd ++ [old; SPF]) = Some (File cf)) /\
  get (w_fs w) (wsd ++ [old; SPT]) = None /\ get (w_fs w) (wsd ++ [old]) = Some Dir /\
  get (w_fs w) wsd = Some Dir /\ get (w_fs w) (wsd ++ [new]) = Some Dir /\
  has_children (w_fs w) (wsd ++ [new]) = true /\
  snd (sp_save wfr false w 0) = inr (FExn EDestinationExists).
Proof. vm_compute. repeat split; eauto; discriminate. Qed.
