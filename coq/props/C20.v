(* C20 — incompatible schema versions are refused; migration preserves every job.
   This file only states theorems; proofs live in SV.C20Proofs.  Models: SV.Discover (gate),
   SV.Migrate (apply_migrations). *)
From SV Require Import Base Json Discover Migrate CorrC19 PathAlg C19Proofs CorrC20 C20Proofs.

(* ---- never opened ---------------------------------------------------------------------- *)
Theorem C20_opened_only_supported : forall root cwd p r root', project_open root cwd p = (Ok r, root') ->
  exists c, read_cfg root cwd (cfgfn cwd p) = RdCfg c /\ declared_version c = SCHEMA.
Proof. exact opened_only_supported. Qed.
Print Assumptions C20_opened_only_supported.

Theorem C20_get_project_only_supported : forall root cwd path s r root',
  get_project root cwd path s = (Ok r, root') ->
  exists d c, nearest_cfg root cwd (abspath cwd path) d /\
              read_cfg root cwd (cfgfn cwd d) = RdCfg c /\ declared_version c = SCHEMA.
Proof. exact get_project_only_supported. Qed.
Print Assumptions C20_get_project_only_supported.

(* ---- gate_refuses: .signac/config declaring a version <> 2 (also newer ones, also an absent key,
   which reads as the configspec default 1): IncompatibleSchemaVersion AND the tree is unchanged
   (the result pairs carry the ORIGINAL tree: the gate sits before the workspace mkdir) *)
Theorem C20_gate_refuses_Project : forall root cwd p c,
  cfg_at root cwd p = true -> read_cfg root cwd (cfgfn cwd p) = RdCfg c ->
  declared_version c <> SCHEMA ->
  project_open root cwd p = (Err EIncompatibleSchemaVersion, root).
Proof. exact gate_project. Qed.
Print Assumptions C20_gate_refuses_Project.

Theorem C20_gate_refuses_get_project : forall root cwd path s d c,
  os_exists root cwd path = true -> (s = true \/ cfg_at root cwd path = true) ->
  nearest_cfg root cwd (abspath cwd path) d ->
  read_cfg root cwd (cfgfn cwd d) = RdCfg c -> declared_version c <> SCHEMA ->
  get_project root cwd path s = (Err EIncompatibleSchemaVersion, root).
Proof. exact gate_get_project. Qed.
Print Assumptions C20_gate_refuses_get_project.

Theorem C20_gate_refuses_init_project : forall root cwd path d c,
  os_exists root cwd path = true -> cfg_at root cwd path = true ->
  nearest_cfg root cwd (abspath cwd path) d ->
  read_cfg root cwd (cfgfn cwd d) = RdCfg c -> declared_version c <> SCHEMA ->
  init_project root cwd path = (Err EIncompatibleSchemaVersion, root).
Proof. exact gate_init_project. Qed.
Print Assumptions C20_gate_refuses_init_project.

(* ---- gate_refuses, legacy layout: signac.rc (no .signac/config) declaring v <> 2, where v is what
   _get_config_schema_version reads (absent key = 0) *)
Theorem C20_gate_refuses_Project_legacy : forall root cwd p v,
  cfg_at root cwd p = false -> get_version root cwd p SCHEMA = Some v -> v <> SCHEMA ->
  project_open root cwd p = (Err EIncompatibleSchemaVersion, root).
Proof. exact gate_project_legacy. Qed.
Print Assumptions C20_gate_refuses_Project_legacy.

Theorem C20_gate_refuses_get_project_legacy : forall root cwd path v,
  os_exists root cwd path = true -> no_cfg_above root cwd (abspath cwd path) ->
  get_version root cwd (abspath cwd path) SCHEMA = Some v -> v <> SCHEMA ->
  get_project root cwd path true = (Err EIncompatibleSchemaVersion, root).
Proof. exact gate_get_project_legacy. Qed.
Print Assumptions C20_gate_refuses_get_project_legacy.

(* the same from anywhere BELOW the legacy project, under every spelling of the path (the search runs on
   abspath cwd path): d = the first directory, iterating dirname, that holds a readable legacy config *)
Theorem C20_gate_refuses_get_project_legacy_below : forall root cwd path d v,
  os_exists root cwd path = true -> no_cfg_above root cwd (abspath cwd path) ->
  nearest_legacy root cwd (abspath cwd path) d ->
  get_version root cwd d SCHEMA = Some v -> v <> SCHEMA ->
  get_project root cwd path true = (Err EIncompatibleSchemaVersion, root).
Proof. exact gate_get_project_legacy_below. Qed.
Print Assumptions C20_gate_refuses_get_project_legacy_below.

(* get_project(search=False) on a legacy project (fix 7826961): IncompatibleSchemaVersion too *)
Theorem C20_gate_refuses_get_project_nosearch_legacy : forall root cwd path v,
  os_exists root cwd path = true -> cfg_at root cwd path = false ->
  get_version root cwd path SCHEMA = Some v -> v <> SCHEMA ->
  get_project root cwd path false = (Err EIncompatibleSchemaVersion, root).
Proof. exact gate_get_project_nosearch_legacy. Qed.
Print Assumptions C20_gate_refuses_get_project_nosearch_legacy.

Theorem C20_gate_refuses_init_project_legacy : forall root cwd path v,
  cfg_at root cwd path = false -> get_version root cwd path SCHEMA = Some v -> v <> SCHEMA ->
  init_project root cwd path = (Err EIncompatibleSchemaVersion, root).
Proof. exact gate_init_project_legacy. Qed.
Print Assumptions C20_gate_refuses_init_project_legacy.

(* every failure of Project() / get_project() leaves the tree exactly as it was *)
Theorem C20_refusal_touches_nothing : forall root cwd path s e root',
  get_project root cwd path s = (Err e, root') -> root' = root.
Proof. exact gate_unchanged_get_project. Qed.
Print Assumptions C20_refusal_touches_nothing.

(* ---- migration --------------------------------------------------------------------------
   Setting: [world es] is the tree with the project directory at /p whose entries are [es];
   [migrate0 es] = apply_migrations (world es) "/" "/p".  The theorems hold for EVERY directory
   content es (any jobs, documents, files, sub-directories); the location /p is fixed (every access
   of the migration is os.path.join(root_directory, <constant>)).

   [mig_pre es c name]: signac.rc parses to c with project name [name]; no .signac entry; the
   project document is absent or a JSON object; the v1 cache / history entries are files or absent;
   the workspace is the default one, or a custom single-component name w with no entry 'workspace'
   in the way, whose directory exists OR was never created (a project that never initialised a job;
   then w must not be one of the names the migration itself creates).
   [mig_post es c name fin]: in the resulting entries fin the whole workspace node of es (every job
   directory with state point, document and files, byte for byte) is the entry 'workspace' (absent
   iff it was absent); signac.rc, the v1 cache and history entries are gone; .signac holds config =
   {schema_version 2} and the cache / history files with their old bytes; the project document holds
   signac_project_name iff the name is not the default "None" and keeps all its other keys; every
   other entry is unchanged.
   Since the repair of F17 (fix: 8637b58) the theorem no longer needs "the configured workspace
   directory exists".  Remaining restriction of the THEOREM (not of the correspondence): custom
   names are single components (nested names like data/ws are covered by the correspondence). *)
Theorem C20_migrate_preserves_jobs : forall es c name, mig_pre es c name ->
  (cv c = None \/ cv c = Some 0%Z \/ cv c = Some 1%Z) ->
  exists fin, migrate0 es = (Ok tt, world fin) /\ mig_post es c name fin.
Proof. exact migrate_preserves_jobs. Qed.
Print Assumptions C20_migrate_preserves_jobs.

(* the path-level model of _migrate_v1_to_v2 computes exactly the entries-level function *)
Theorem C20_migration_step_refines : forall es c name, mig_pre es c name ->
  migrate_v1_to_v2 (world es) CWD0 P0 = (Ok tt, world (mig_entries c name es)).
Proof. exact mig_refines. Qed.
Print Assumptions C20_migration_step_refines.

(* the result opens normally (here: with its workspace directory present) and nothing is written *)
Theorem C20_migrated_project_opens : forall fin cd ws,
  alookup s_dotsignac fin = Some (Dir cd) ->
  alookup s_config cd = Some (File (FCfg {| cv := Some 2%Z; cproj := None; cws := None |})) ->
  alookup s_workspace fin = Some (Dir ws) ->
  get_project (world fin) CWD0 P0 true = (Ok P0, world fin).
Proof. exact opens_after. Qed.
Print Assumptions C20_migrated_project_opens.

Theorem C20_migrated_project_opens_creating_workspace : forall fin cd,
  alookup s_dotsignac fin = Some (Dir cd) ->
  alookup s_config cd = Some (File (FCfg {| cv := Some 2%Z; cproj := None; cws := None |})) ->
  alookup s_workspace fin = None ->
  get_project (world fin) CWD0 P0 true = (Ok P0, world (aset s_workspace (Dir []) fin)).
Proof. exact opens_after_creating. Qed.
Print Assumptions C20_migrated_project_opens_creating_workspace.

(* migrating an up-to-date project is a no-op *)
Theorem C20_migrate_noop_on_v2 : forall es cd c, alookup s_dotsignac es = Some (Dir cd) ->
  alookup s_config cd = Some (File (FCfg c)) -> cv c = Some 2%Z ->
  migrate0 es = (Ok tt, world es).
Proof. exact migrate_noop_on_v2. Qed.
Print Assumptions C20_migrate_noop_on_v2.

(* newer schema versions are refused by the migration too, nothing touched (both layouts) *)
Theorem C20_migrate_newer_refused : forall es cd c v, alookup s_dotsignac es = Some (Dir cd) ->
  alookup s_config cd = Some (File (FCfg c)) -> cv c = Some v -> (2 < v)%Z ->
  migrate0 es = (Err ERuntimeError, world es).
Proof. exact migrate_newer_refused_v2. Qed.
Print Assumptions C20_migrate_newer_refused.

Theorem C20_migrate_newer_refused_legacy : forall es c name v, alookup s_rc es = Some (File (FCfg c)) ->
  cproj c = Some name -> alookup s_dotsignac es = None -> cv c = Some v -> (2 < v)%Z ->
  migrate0 es = (Err ERuntimeError, world es).
Proof. exact migrate_newer_refused_v1. Qed.
Print Assumptions C20_migrate_newer_refused_legacy.

(* collision (custom workspace_dir while an entry 'workspace' exists): RuntimeError; every entry of
   the project directory is left as it was, except that a version 0 / absent has been bumped to 1
   in signac.rc by the completed 0->1 step (never to 2: the version is written after each step) *)
Theorem C20_migrate_collision_refused : forall es c name w, fail_pre es c name w ->
  (cv c = None \/ cv c = Some 0%Z \/ cv c = Some 1%Z) ->
  migrate0 es = (Err ERuntimeError,
                 world (match cv c with Some 1%Z => es | _ => aset s_rc (File (FCfg (with_v1 c))) es end)).
Proof. exact migrate_refused. Qed.
Print Assumptions C20_migrate_collision_refused.

(* the former F17 witness (signac.rc = {1, "x", workspace_dir ws}, no directory ws) satisfies the
   hypotheses, migrates, and the result opens *)
Theorem C20_former_f17_witness_migrates :
  mig_pre f17_es f17_cfg [120%N] /\
  migrate0 f17_es = (Ok tt, world (final_entries f17_cfg [120%N] f17_es)) /\
  fst (get_project (world (final_entries f17_cfg [120%N] f17_es)) CWD0 P0 true) = Ok P0.
Proof. exact f17_repaired. Qed.
Print Assumptions C20_former_f17_witness_migrates.

(* ---- model_holds: licence for "implementation agrees with the model on this case => ..."
   gate: whenever the model refuses Project() / get_project() and the implementation agrees, the
   implementation raised the same exception class and its byte snapshot is unchanged (with the
   gate theorems above: IncompatibleSchemaVersion for every declared version <> 2).
   migration: agreement means the observed outcome and tree ARE the model's, to which the
   migration theorems apply.  (partial: the decidable oracle holds_C20 itself is evaluated on every
   observation of every run; a closed proof "mismatch = false -> holds_C20 = true" in general
   position of the scratch directory is not attempted.) *)
Theorem C20_model_holds_gate : forall c g e,
  wf_node (c20_tree c) = true -> agree_g c g = true ->
  (g_kind g = GProject \/ exists s, g_kind g = GGet s) ->
  fst (run_g (CorrC20.mkroot (c20_base c) (c20_tree c)) (c20_cwd c) (c20_root c) (g_kind g)) = Err e ->
  g_res g = Err e /\ g_changed g = false /\ g_post g = None.
Proof. exact model_holds_gate. Qed.
Print Assumptions C20_model_holds_gate.

Theorem C20_model_holds_migration : forall c, agree_mig c = true ->
  let root := CorrC20.mkroot (c20_base c) (c20_tree c) in
  res_unit_eqb (fst (apply_migrations root (c20_cwd c) (c20_root c))) (c20_mig c) = true /\
  CorrC20.sub_eqb (snd (apply_migrations root (c20_cwd c) (c20_root c))) (CorrC20.base_comps (c20_base c)) (c20_mig_post c) = true.
Proof. exact model_holds_migration. Qed.
Print Assumptions C20_model_holds_migration.

(* ---- non-vacuity ------------------------------------------------------------------------ *)
Example C20_example_mig_pre_satisfiable : mig_pre ex_es ex_cfg0 [109; 121; 32; 112]%N.
Proof. exact example_mig_pre. Qed.

Example C20_example_gate : (* a v2-layout project declaring version 3, without workspace directory *)
  let es := [(s_dotsignac, Dir [(s_config, File (FCfg {| cv := Some 3%Z; cproj := None; cws := None |}))])] in
  project_open (world es) CWD0 P0 = (Err EIncompatibleSchemaVersion, world es) /\
  get_project (world es) CWD0 P0 true = (Err EIncompatibleSchemaVersion, world es) /\
  init_project (world es) CWD0 P0 = (Err EIncompatibleSchemaVersion, world es).
Proof. vm_compute. repeat split; reflexivity. Qed.
