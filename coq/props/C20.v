(* C20 — incompatible schema versions are refused; migration preserves every job.
   This file only states theorems; proofs live in SV.C20Proofs.  Models: SV.Discover (gate),
   SV.Migrate (apply_migrations). *)
From SV Require Import Base Json Discover Migrate CorrC20 C19Proofs C20Proofs.

(* ---- never opened ---------------------------------------------------------------------- *)
Theorem C20_opened_only_supported : forall root cwd p r root', project_open root cwd p = (Ok r, root') ->
  exists c, read_cfg root cwd (cfgfn cwd p) = RdCfg c /\ declared_version c = SCHEMA.
Proof. exact opened_only_supported. Qed.
Print Assumptions C20_opened_only_supported.

Theorem C20_get_project_only_supported : forall root cwd path s r root',
  get_project root cwd path s = (Ok r, root') ->
  exists d c, nearest_cfg root cwd (abspath cwd path) d /\
              read_cfg root cwd (cfgfn cwd d) = RdCfg c /\ declared_version c = SCHEMA.
Proof. exact get_project_only_supported. Qed.
Print Assumptions C20_get_project_only_supported.

(* ---- gate_refuses: .signac/config declaring a version <> 2 (also newer ones, also an absent key,
   which reads as the configspec default 1): IncompatibleSchemaVersion AND the tree is unchanged
   (the result pairs carry the ORIGINAL tree: the gate sits before the workspace mkdir) *)
Theorem C20_gate_refuses_Project : forall root cwd p c,
  cfg_at root cwd p = true -> read_cfg root cwd (cfgfn cwd p) = RdCfg c ->
  declared_version c <> SCHEMA ->
  project_open root cwd p = (Err EIncompatibleSchemaVersion, root).
Proof. exact gate_project. Qed.
Print Assumptions C20_gate_refuses_Project.

Theorem C20_gate_refuses_get_project : forall root cwd path s d c,
  os_exists root cwd path = true -> (s = true \/ cfg_at root cwd path = true) ->
  nearest_cfg root cwd (abspath cwd path) d ->
  read_cfg root cwd (cfgfn cwd d) = RdCfg c -> declared_version c <> SCHEMA ->
  get_project root cwd path s = (Err EIncompatibleSchemaVersion, root).
Proof. exact gate_get_project. Qed.
Print Assumptions C20_gate_refuses_get_project.

Theorem C20_gate_refuses_init_project : forall root cwd path d c,
  os_exists root cwd path = true -> cfg_at root cwd path = true ->
  nearest_cfg root cwd (abspath cwd path) d ->
  read_cfg root cwd (cfgfn cwd d) = RdCfg c -> declared_version c <> SCHEMA ->
  init_project root cwd path = (Err EIncompatibleSchemaVersion, root).
Proof. exact gate_init_project. Qed.
Print Assumptions C20_gate_refuses_init_project.

(* ---- gate_refuses, legacy layout: signac.rc (no .signac/config) declaring v <> 2, where v is what
   _get_config_schema_version reads (absent key = 0) *)
Theorem C20_gate_refuses_Project_legacy : forall root cwd p v,
  cfg_at root cwd p = false -> get_version root cwd p SCHEMA = Some v -> v <> SCHEMA ->
  project_open root cwd p = (Err EIncompatibleSchemaVersion, root).
Proof. exact gate_project_legacy. Qed.
Print Assumptions C20_gate_refuses_Project_legacy.

Theorem C20_gate_refuses_get_project_legacy : forall root cwd path v,
  os_exists root cwd path = true -> no_cfg_above root cwd (abspath cwd path) ->
  get_version root cwd (abspath cwd path) SCHEMA = Some v -> v <> SCHEMA ->
  get_project root cwd path true = (Err EIncompatibleSchemaVersion, root).
Proof. exact gate_get_project_legacy. Qed.
Print Assumptions C20_gate_refuses_get_project_legacy.

Theorem C20_gate_refuses_init_project_legacy : forall root cwd path v,
  cfg_at root cwd path = false -> get_version root cwd path SCHEMA = Some v -> v <> SCHEMA ->
  init_project root cwd path = (Err EIncompatibleSchemaVersion, root).
Proof. exact gate_init_project_legacy. Qed.
Print Assumptions C20_gate_refuses_init_project_legacy.

(* every failure of Project() / get_project() leaves the tree exactly as it was *)
Theorem C20_refusal_touches_nothing : forall root cwd path s e root',
  get_project root cwd path s = (Err e, root') -> root' = root.
Proof. exact gate_unchanged_get_project. Qed.
Print Assumptions C20_refusal_touches_nothing.

(* ---- migration --------------------------------------------------------------------------
   FULL STATEMENT (false of the faithful model, hence not a theorem):
     forall es c name, legacy_pre es c name -> fst (migrate0 es) = Ok tt /\ <jobs preserved>
   It is refuted by a legacy project whose configured custom workspace directory was never
   created (defect F17, signac/migration/v1_to_v2.py:55-66). *)
Theorem C20_migrate_missing_custom_workspace_refuted : exists es c name,
  legacy_pre es c name /\
  migrate0 es = (Err ERuntimeError, world es) /\
  fst (get_project (world es) CWD0 P0 true) = Err EIncompatibleSchemaVersion.
Proof. exact f17_refuted. Qed.
Print Assumptions C20_migrate_missing_custom_workspace_refuted.
