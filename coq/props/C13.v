(* C13 — a successful sync makes the destination a superset and touches nothing else. *)
From SV Require Import Base Json Canon Sync SyncObs CorrC13 C13Proofs.

Theorem C13_sync_src_unchanged : forall frepr cf o en src dst,
  ob_src (model_call frepr cf o en src dst) = src.
Proof. exact run_sync_src_untouched. Qed.
Print Assumptions C13_sync_src_unchanged.
