(* C13 — a successful sync makes the destination a superset and touches nothing else.
   Statements only; the proofs are in SV.SyncProofs / SyncDocProofs / SyncTopProofs / C13Proofs.
   The model is SV.Sync (sync.py path by path, defects included; [cfg] switches each defect). *)
From SV Require Import C13Proofs CorrC15 SyncWitness.

(* sync_src_unchanged — the source project is byte-identical: no step of the model writes below it
   (every entry point, every outcome, sequential or pooled, any repair state of the code) *)
Theorem C13_sync_src_unchanged : forall frepr all cf i,
  ob_src (c_obs (model_case_gen frepr all cf i)) = i_src i.
Proof. exact model_case_src_untouched. Qed.
Print Assumptions C13_sync_src_unchanged.

(* sync_dst_only_unchanged (files): whatever exists in the destination job and not in the source job —
   a file or directory at any depth — is the same node after the file walk, also when the call ends in an
   exception *)
Theorem C13_sync_dst_only_unchanged : forall frepr cf p fuel o deep sdir ddir subdir,
  wf_node (Dir sdir) = true ->
  lookup_path p (Dir sdir) = None -> lookup_path p (Dir ddir) <> None ->
  lookup_path p (Dir (fst (sync_ws frepr cf fuel o deep sdir ddir subdir))) = lookup_path p (Dir ddir).
Proof. exact ws_dst_only. Qed.
Print Assumptions C13_sync_dst_only_unchanged.

(* sync_dst_only_unchanged (document keys): ByKey (any key strategy, dry or real, any outcome) leaves every
   key that exists only in the destination document alone, at every nesting depth *)
Theorem C13_dst_only_document_keys : forall cf ks sv, wf sv = true -> forall dv root dry sk, wf dv = true ->
  keys_kept sv dv (fst (fst (bykey cf ks sv dv root dry sk))) = true.
Proof. exact bykey_keys_kept. Qed.
Print Assumptions C13_dst_only_document_keys.

(* jobs that are outside the selection or absent from the source are not created / modified *)
Theorem C13_other_jobs_untouched : forall frepr cf all o src dst id,
  job_selected o id = false \/ alookup id (p_ws src) = None ->
  alookup id (p_ws (fst (sync_projects_m frepr cf all o src dst))) = alookup id (p_ws dst).
Proof. exact selection_respected. Qed.
Print Assumptions C13_other_jobs_untouched.

(* the state point file of an existing destination job is never touched *)
Theorem C13_statepoint_untouched : forall frepr cf o deep fp sdir ddir dsp d' e,
  (forall es, alookup FN_SP ddir <> Some (Dir es)) ->
  sync_jobs_m frepr cf o deep fp (Some sdir) (Some ddir) dsp = (Some d', e) ->
  alookup FN_SP d' = alookup FN_SP ddir.
Proof. exact statepoint_untouched. Qed.
Print Assumptions C13_statepoint_untouched.

(* sync_superset (existing job) — FULL, for /repo as it is (cfg_current): after a successful real run every source
   file that was absent from the destination is present byte-identically with a fresh mtime — at the top level
   always, below it when recursive — unless a name on its path is excluded.  "Absent" (SyncObs.absent_in): nothing is
   at the path, or something of the other kind is there or on the way (a file where a directory is needed, a
   directory where the file should be) — since 4239e5d such a clash is a FileSyncConflict, so a run that returned met
   none.  "Excluded" (clear_path, C13_excluded_means): a user pattern matches the name; or, at the top level of the
   job only, the name is the job's own state point file / document (2602a0e) *)
Theorem C13_sync_superset : forall frepr p fuel o deep sdir ddir subdir d' c m,
  wf_node (Dir sdir) = true -> o_dry_run o = false ->
  sync_ws frepr cfg_current fuel o deep sdir ddir subdir = (d', None) ->
  lookup_path p (Dir sdir) = Some (File c m) -> absent_in false p ddir = true ->
  (o_recursive o = true \/ length p = 1%nat) -> clear_path cfg_current o p = true ->
  lookup_path p (Dir d') = Some (File c NOW).
Proof. exact ws_superset_current. Qed.
Print Assumptions C13_sync_superset.

(* o_top is true at every entry point and false in every recursive call of the walk *)
Theorem C13_excluded_means : forall o n,
  excluded cfg_current o n =
  (o_exclude o n
   || (o_top o && (str_eqb FN_SP n || match o_docsync o with DS_copy => false | _ => str_eqb FN_DOC n end))).
Proof. exact excluded_current. Qed.
Print Assumptions C13_excluded_means.

Theorem C13_excluded_below_top_level : forall o n, excluded cfg_current (set_top o false) n = o_exclude o n.
Proof. exact excluded_below_current. Qed.
Print Assumptions C13_excluded_below_top_level.

(* a name that is a file on one side and a directory on the other is never passed over silently: a walk of the
   level that returns (no exception) has every such name excluded *)
Theorem C13_kind_clash_never_silent : forall frepr fuel o deep sdir ddir subdir d' n,
  sync_ws frepr cfg_current (S fuel) o deep sdir ddir subdir = (d', None) ->
  In n (names cfg_current sdir) -> classify frepr deep n sdir ddir = Funny -> excluded cfg_current o n = true.
Proof. exact kind_clash_never_silent. Qed.
Print Assumptions C13_kind_clash_never_silent.

(* regression: the former counterexamples (a source-only file named 'tags' / 'signac_statepoint.json.bak', and
   the witnesses of the repaired C14 / C15 defects) satisfy all three oracles in the model of /repo now *)
Theorem C13_former_counterexamples_hold :
  forallb (fun i => holds_C13 nofl (model_case nofl cfg_current i) && holds_C14 nofl (model_case nofl cfg_current i)
                    && holds_C15 nofl (model_case nofl cfg_current i))
          [wit_C13_w1; wit_C13_w2; wit_C14_w1; wit_C15_w1; wit_C15_w2; wit_C15_w3; wit_C15_w4; wit_C15_w5; wit_C15_w6] = true.
Proof. exact repaired_witnesses_hold. Qed.
Print Assumptions C13_former_counterexamples_hold.

(* sync_superset (new job) — /repo as it is (74ea1a0, 618e7cc): a job missing in the destination is cloned whole,
   sub-directories included whatever `recursive` says: every path k :: q of the source job leads to the same bytes
   unless the patterns exclude a name on it — directly in the job directory a user pattern that is not one of the job's
   own two files (clone_excl), below it any user pattern; for a file the result is `File c NOW`, for a directory the copy
   of the directory without the names the user patterns match *)
Theorem C13_cloned_job_exact : forall frepr o id sd ws k q,
  o_dry_run o = false -> alookup id ws = None ->
  clone_excl o k = false -> forallb (fun n => negb (o_exclude o n)) q = true ->
  lookup_path (id :: k :: q) (Dir (fst (clone_or_sync frepr cfg_current o (id, Dir sd) ws)))
  = match lookup_path (k :: q) (Dir sd) with
    | Some y => Some (touch (prune (o_exclude o) y))
    | None => None
    end.
Proof. exact clone_paths_current. Qed.
Print Assumptions C13_cloned_job_exact.

(* every selected job of a successful project-level run is processed as the job-level code would, on the
   workspace entry it had before the call *)
Theorem C13_selected_jobs_processed : forall frepr cf o jobs ws id sdir,
  NoDup (map fst jobs) -> In (id, Dir sdir) jobs ->
  snd (run_steps (clone_or_sync frepr cf o) jobs ws) = None ->
  alookup id (fst (run_steps (clone_or_sync frepr cf o) jobs ws))
  = alookup id (fst (clone_or_sync frepr cf o (id, Dir sdir) ws))
  /\ snd (clone_or_sync frepr cf o (id, Dir sdir) ws) = None.
Proof. exact project_job_result. Qed.
Print Assumptions C13_selected_jobs_processed.

(* sync_idempotent: repeating a successful real file walk changes nothing and succeeds *)
Theorem C13_sync_idempotent : forall frepr cf fuel o deep sdir ddir subdir d',
  wf_node (Dir sdir) = true -> o_dry_run o = false -> (depth (Dir sdir) < fuel)%nat ->
  sync_ws frepr cf fuel o deep sdir ddir subdir = (d', None) ->
  sync_ws frepr cf fuel o deep sdir d' subdir = (d', None).
Proof. exact ws_idempotent. Qed.
Print Assumptions C13_sync_idempotent.

(* licence for the correspondence: on every well-formed input (directory names distinct at every level) the
   observation the model predicts satisfies the source-unchanged clause of the oracle *)
Theorem C13_model_holds : forall frepr cf i, wf_project (i_src i) = true ->
  let c := model_case frepr cf i in
  ob_rest_ok (c_obs c) = true /\ proj_eqb frepr (i_src i) (ob_src (c_obs c)) = true.
Proof. exact model_holds_C13. Qed.
Print Assumptions C13_model_holds.

(* non-vacuity: the hypotheses of the theorems are satisfiable — the corpus witness w1 is a well-formed pair
   on which a real run of the model succeeds and copies nothing it should not *)
Example C13_example :
  let i := wit_C13_w2 in
  forallb (fun kn => wf_node (snd kn)) (p_ws (i_src i)) = true
  /\ ob_exn (c_obs (model_case nofl cfg_current i)) = None
  /\ holds_C13 nofl (model_case nofl cfg_current i) = true.
Proof. vm_compute. repeat split. Qed.
