(* C17 — a linked view is an exact, self-healing picture of the selected jobs. *)
From SV Require Import Base View CorrC17 C17Proofs.

Theorem C17_placeholder : split_sep (join_sep [s_dot; s_job]) = [s_dot; s_job].
Proof. exact split_join_demo. Qed.
Print Assumptions C17_placeholder.
