(* C17 — a linked view is an exact, self-healing picture of the selected jobs.
   This file only states theorems; proofs live in SV.C17Proofs / ViewFS / ViewTrie / ViewThm / ViewThm2 /
   C17Witness.  The model is SV.View (create_linked_view and all helpers of signac/linked_view.py, the
   leaf/node check of import_export.py as written); the job -> path map is an input of the model. *)
From SV Require Import Base View CorrC17 C17Proofs ViewFS ViewTrie ViewThm ViewThm2 ViewThm3 ViewResolve ViewThm4 ViewInc ViewInc2 C17Witness.

(* ---------------------------------------------------------------- rejected inputs *)
(* view_reject_unchanged: whatever the guards reject (separator in a top level key/value, a failing
   path function, the leaf/node check) leaves the whole tree untouched — for every tree. *)
Theorem C17_view_reject_unchanged : forall hint s c,
  guard_rejects c ->
  snd (create_linked_view hint s c) = s /\ exists e, fst (create_linked_view hint s c) = Err e.
Proof. exact reject_unchanged. Qed.
Print Assumptions C17_view_reject_unchanged.

Theorem C17_separator_rejected : forall c,
  existsb (fun j => existsb has_sep (j_items j)) (c_jobs c) = true -> make_links c = Err ERuntimeError.
Proof. exact sep_rejected. Qed.
Print Assumptions C17_separator_rejected.

(* an error that comes with a changed tree can only be an OSError out of _update_view *)
Theorem C17_changed_error_is_oserror : forall hint s c e,
  fst (create_linked_view hint s c) = Err e -> snd (create_linked_view hint s c) <> s -> e = EOSError.
Proof. exact error_changed_is_oserror. Qed.
Print Assumptions C17_changed_error_is_oserror.

(* Full statement wanted: "check_structure [] ks = true -> no key is a proper prefix of another key".
   It is FALSE of the code as written (order dependent, DESIGN F15).  Proved: the half the code does
   guarantee — no key is a proper prefix of an EARLIER key. *)
Theorem C17_leafnode_check_partial : forall ks,
  check_structure [] ks = true ->
  forall l1 k l2 k', ks = l1 ++ k :: l2 -> In k' l1 -> k <> [] -> proper_prefix k k' = false.
Proof. exact check_structure_sound. Qed.
Print Assumptions C17_leafnode_check_partial.

Theorem C17_leafnode_check_refuted :
  let k1 := [s_a; s_job] in let k2 := [s_a; s_job; s_b; s_job] in
  check_structure [] [k1; k2] = true /\ check_structure [] [k2; k1] = false /\ proper_prefix k1 k2 = true.
Proof. exact leafnode_order_dependent. Qed.
Print Assumptions C17_leafnode_check_refuted.

(* the defect reaches the file system: the accepted order creates the second link THROUGH the first,
   inside the other job's directory; the reverse order of the same input is rejected *)
Theorem C17_view_reject_unchanged_refuted :
  let c := mkcall [mkjob s_j1 pf_a6; mkjob s_j2 pf_a6job5] in
  let '(r1, (w1, _)) := run [] world0 c in
  is_ok r1 = true /\ get world0 [s_p; s_j1; s_5] = None /\
  get w1 [s_p; s_j1; s_5; s_job] = Some (Lnk (join_sep [s_dotdot; s_dotdot; s_dotdot; s_dotdot; s_dotdot; s_p; s_j2])) /\
  fst (run [] world0 (mkcall [mkjob s_j2 pf_a6job5; mkjob s_j1 pf_a6])) = Err ERuntimeError.
Proof. exact leafnode_accepted_pollutes. Qed.
Print Assumptions C17_view_reject_unchanged_refuted.

(* ---------------------------------------------------------------- the dead-branch analysis, for all inputs *)
(* a branch is reported dead iff it is a node of the tree of existing paths and no key passes through it *)
Theorem C17_dead_branches_exact : forall existing ks b,
  In b (find_dead_branches (analysis_tree existing ks) []) <->
  (is_nil b || any_prefix b existing) = true /\ any_prefix b ks = false.
Proof. exact analysis_dead. Qed.
Print Assumptions C17_dead_branches_exact.

Theorem C17_dead_branches_nodup : forall existing ks,
  NoDup (find_dead_branches (analysis_tree existing ks) []).
Proof. exact analysis_dead_NoDup. Qed.
Print Assumptions C17_dead_branches_nodup.

(* ---------------------------------------------------------------- the from-scratch build is exact *)
(* For every tree w, every plain absolute prefix P whose parent exists and that does not exist itself,
   every specification sp (distinct token lists; tokens plain file names other than the leaf name, so
   no "", ".", "..", "job", separator), every tie-break hint and cwd: _update_view succeeds and below P
   there is exactly: one link T/job per entry (T, dir) with the relative target the code computes, the
   directories leading to the links, nothing else; every path not below P keeps its kind (nothing else
   is touched); at least one operation is performed unless sp is empty. *)
Theorem C17_view_exact_from_scratch : forall P (sp : spec) hint w n cwd,
  P <> [] -> Forall plain P -> good_spec sp -> dirs_to w (removelast P) -> get w P = None ->
  exists w' k,
    update_view hint (w, n) cwd (A P) (lk_of sp) = ok (w', (n + k)%N) /\
    (sp <> [] -> (0 < k)%N) /\
    (forall q, kind_at w' (P ++ q) = vk (negb (is_nil sp)) (map (placed P cwd) sp) q) /\
    (forall r, is_prefix P r = false -> kind_at w' r = kind_at w r).
Proof. exact from_scratch_exact. Qed.
Print Assumptions C17_view_exact_from_scratch.

(* one more link in an existing plain view: the step every update is made of *)
Theorem C17_make_link_step : forall P, P <> [] -> Forall plain P ->
  forall w ex cur T src n cwd,
  Inv P w ex cur -> Forall tok T -> ~ In T (map fst cur) ->
  exists w' k,
    make_link (w, n) cwd src (A ((P ++ T) ++ [s_job])) = ok (w', N.succ (n + k)) /\
    Inv P w' true (cur ++ [(T, src)]) /\
    (forall r, is_prefix P r = false -> kind_at w' r = kind_at w r).
Proof. exact link_step. Qed.
Print Assumptions C17_make_link_step.

(* ---------------------------------------------------------------- the incremental update is exact *)
(* view_exact, on plain views.  For every tree w (one entry per name) whose prefix P holds exactly the view
   of an OLD plain specification so (no link at the root of the prefix) with links that resolve to the
   directories they were made for, every NEW plain specification sn, every hint and cwd: _update_view
   succeeds and afterwards there is below P exactly the view of sn — one link per entry with the target
   the code computes, the directories leading to them, nothing else (no obsolete, stale or duplicate
   link, no empty directory) — and no path outside P changes its kind.  so and sn are arbitrary: any
   additions, removals and re-keys between two runs.  PARTIAL only in that views with the link at the
   root of the prefix (one selected job) and trees reached through the known defects are excluded. *)
Theorem C17_view_exact_partial : forall P (so sn : spec) hint w n cwd,
  P <> [] -> Forall plain P -> good_spec so -> good_spec sn -> no_root so -> no_root sn -> nwf w ->
  Inv P w true (map (placed P cwd) so) ->
  (forall e, In e so -> realpath w cwd (pjoin (A P) (key_of e)) = snd e) ->
  exists w' k,
    update_view hint (w, n) cwd (A P) (lk_of sn) = ok (w', (n + k)%N) /\
    (forall q, kind_at w' (P ++ q) = vk true (map (placed P cwd) sn) q) /\
    (forall r, is_prefix P r = false -> kind_at w' r = kind_at w r).
Proof. exact incremental_exact. Qed.
Print Assumptions C17_view_exact_partial.

(* view_incremental_eq_scratch for ANY two plain link maps: updating the old view and building the
   new one from scratch (in any tree where the prefix does not exist) give the same kind — same link
   text, same directories, same absences — at every path below the prefix. *)
Theorem C17_view_incremental_eq_scratch_partial : forall P (so sn : spec) hint hint' w ws n n' cwd,
  P <> [] -> Forall plain P -> good_spec so -> good_spec sn -> no_root so -> no_root sn -> nwf w ->
  Inv P w true (map (placed P cwd) so) ->
  (forall e, In e so -> realpath w cwd (pjoin (A P) (key_of e)) = snd e) ->
  dirs_to ws (removelast P) -> get ws P = None ->
  exists wi ki wsc ksc,
    update_view hint (w, n) cwd (A P) (lk_of sn) = ok (wi, (n + ki)%N) /\
    update_view hint' (ws, n') cwd (A P) (lk_of sn) = ok (wsc, (n' + ksc)%N) /\
    forall q, q <> [] \/ sn <> [] -> kind_at wi (P ++ q) = kind_at wsc (P ++ q).
Proof. exact incremental_eq_scratch. Qed.
Print Assumptions C17_view_incremental_eq_scratch_partial.

(* ---------------------------------------------------------------- no dangling link *)
(* the link T/job with the relative target the code computes resolves (os.path.realpath in the model
   tree) to the job directory, whenever that directory exists; for every cwd *)
Theorem C17_view_links_resolve : forall P T tgt w cwd,
  P <> [] -> Forall plain (P ++ T) -> Forall real (P ++ T) ->
  Forall plain tgt -> Forall nosep tgt -> dirs_to w tgt -> dirs_to w (P ++ T) ->
  Forall tok T ->
  get w ((P ++ T) ++ [s_job]) = Some (Lnk (link_target cwd (A P) (T ++ [s_job]) tgt)) ->
  realpath w cwd (pjoin (A P) (T ++ [s_job])) = tgt.
Proof. exact link_target_resolves. Qed.
Print Assumptions C17_view_links_resolve.

(* ---------------------------------------------------------------- running twice *)
(* the scan of an existing plain view finds exactly the directories of its links *)
Theorem C17_scan_exact : forall P, P <> [] -> Forall plain P ->
  forall w cwd cur,
  Inv P w true cur -> nwf w -> (forall e, In e cur -> fst e <> []) ->
  forall d, In d (find_all_links w cwd (A P)) <-> In d (map fst cur).
Proof. exact scan_of_inv. Qed.
Print Assumptions C17_scan_exact.

(* view_idempotent, PARTIAL.  Full statement wanted: for every view the second run performs zero
   operations.  Proved: for every tree (one entry per name) whose prefix holds exactly the view of a
   plain specification WITHOUT a link at the root of the prefix (i.e. at least one distinguishing token
   per job) and whose links resolve to the job directories, _update_view returns the state unchanged —
   same tree, same operation counter — for every hint and cwd.  Missing: the root-level link, where the
   statement is false (next theorem). *)
Theorem C17_view_idempotent_partial : forall P (sp : spec) hint w n cwd,
  P <> [] -> Forall plain P -> good_spec sp -> no_root sp -> nwf w ->
  Inv P w true (map (placed P cwd) sp) ->
  (forall e, In e sp -> realpath w cwd (pjoin (A P) (key_of e)) = snd e) ->
  update_view hint (w, n) cwd (A P) (lk_of sp) = ok (w, n).
Proof. exact second_run_noop. Qed.
Print Assumptions C17_view_idempotent_partial.

(* ... and the hypotheses are what a fresh build establishes: build from scratch, run again = no-op.
   ([nwf w'] — one entry per name in the tree the first run produced — is kept as a hypothesis; it is
   not proved to be preserved by the model's tree update.) *)
Theorem C17_view_fresh_then_noop : forall P (sp : spec) hint hint2 w n cwd w' n',
  P <> [] -> Forall plain P -> Forall real P -> good_spec sp -> no_root sp ->
  (forall e, In e sp -> Forall real (fst e)) -> good_targets P w sp ->
  dirs_to w (removelast P) -> get w P = None ->
  update_view hint (w, n) cwd (A P) (lk_of sp) = ok (w', n') -> nwf w' ->
  update_view hint2 (w', n') cwd (A P) (lk_of sp) = ok (w', n').
Proof. exact scratch_then_second_run_noop. Qed.
Print Assumptions C17_view_fresh_then_noop.

Theorem C17_view_idempotent_refuted :
  let c := mkcall [mkjob s_j1 []] in
  let '(r1, (w1, n1)) := run [] world0 c in
  let '(r2, (w2, n2)) := run [] w1 c in
  is_ok r1 = true /\ is_ok r2 = true /\ w2 = w1 /\ n2 = 2%N.
Proof. exact single_job_not_noop. Qed.
Print Assumptions C17_view_idempotent_refuted.

(* ---------------------------------------------------------------- one link per selected job *)
Theorem C17_one_link_per_job_refuted_duplicates :
  let c := mkcall [mkjob s_j1 pf_a6; mkjob s_j2 pf_a6] in
  exists lk w n, run [] world0 c = (Ok lk, (w, n)) /\ length lk = 1%nat /\ length (c_jobs c) = 2%nat.
Proof. exact duplicate_paths_merge. Qed.
Print Assumptions C17_one_link_per_job_refuted_duplicates.

Theorem C17_one_link_per_job_refuted_empty_selection :
  let c := mkcall [] in
  exists lk w n, run [] world0 c = (Ok lk, (w, n)) /\ c_jobs c = [] /\
                 get w [s_v; s_job] = Some (Lnk (join_sep [s_dotdot; s_p; s_j2])).
Proof. exact empty_selection_links_a_job. Qed.
Print Assumptions C17_one_link_per_job_refuted_empty_selection.

Theorem C17_view_contained_refuted_absolute_key :
  let c := mkcall [mkjob s_j1 pf_abs; mkjob s_j2 pf_a6] in
  let '(r1, (w1, _)) := run [] world0 c in
  is_ok r1 = true /\ get w1 [[120%N]; s_job] <> None /\ get w1 [s_v; [120%N]] = None.
Proof. exact absolute_key_escapes. Qed.
Print Assumptions C17_view_contained_refuted_absolute_key.

(* ---------------------------------------------------------------- licence for the correspondence step *)
(* If the implementation's observation agrees with the model on a case, the oracle's verdict on the
   implementation's observation IS its verdict on what the model produces for that input. *)
Theorem C17_model_holds : forall k,
  mismatch_C17 k = false -> holds_C17 k = holds_C17 (model_case k).
Proof. exact model_agreement_transfers. Qed.
Print Assumptions C17_model_holds.

(* non-vacuity: the hypotheses of the from-scratch theorem are satisfiable by a concrete world *)
Example C17_example_hypotheses :
  let P := [s_v] in let sp : spec := [([s_a; s_6], [s_p; s_j1]); ([s_a; s_5], [s_p; s_j2])] in
  P <> [] /\ Forall plain P /\ good_spec sp /\ dirs_to world0 (removelast P) /\ get world0 P = None.
Proof.
  simpl. split; [discriminate|]. split; [repeat constructor|]. split.
  - split.
    + repeat constructor; simpl; intuition discriminate.
    + intros e [<-|[<-|[]]]; simpl; repeat constructor; try discriminate;
        unfold nosep, SEP; simpl; intuition discriminate.
  - split; [|reflexivity]. intros d1 d2 E. symmetry in E. apply app_eq_nil in E. destruct E as [-> _]. reflexivity.
Qed.
