(* C17 — a linked view is an exact, self-healing picture of the selected jobs.
   This file only states theorems; proofs live in SV.C17Proofs / ViewFS / ViewTrie / ViewThm / ViewThm2 /
   C17Witness.  The model is SV.View (create_linked_view and all helpers of signac/linked_view.py, the
   leaf/node check of import_export.py as written); the job -> path map is an input of the model. *)
From SV Require Import Base View CorrC17 C17Proofs ViewFS ViewTrie ViewThm ViewThm2 ViewThm3 ViewResolve ViewThm4 ViewInc ViewInc2 C17Witness.

(* ---------------------------------------------------------------- rejected inputs *)
(* view_reject_unchanged: whatever the guards reject (separator in a top level key/value, a failing
   path function, the leaf/node check) leaves the whole tree untouched — for every tree. *)
Theorem C17_view_reject_unchanged : forall hint s c,
  guard_rejects c ->
  snd (create_linked_view hint s c) = s /\ exists e, fst (create_linked_view hint s c) = Err e.
Proof. exact reject_unchanged. Qed.
Print Assumptions C17_view_reject_unchanged.

Theorem C17_separator_rejected : forall c,
  existsb (fun j => existsb has_sep (j_items j)) (c_jobs c) = true -> make_links c = Err ERuntimeError.
Proof. exact sep_rejected. Qed.
Print Assumptions C17_separator_rejected.

(* an error that comes with a changed tree can only be an OSError out of _update_view *)
Theorem C17_changed_error_is_oserror : forall hint s c e,
  fst (create_linked_view hint s c) = Err e -> snd (create_linked_view hint s c) <> s -> e = EOSError.
Proof. exact error_changed_is_oserror. Qed.
Print Assumptions C17_changed_error_is_oserror.

(* the repaired leaf/node check (fc0e7cc) is exact: accepted iff no key is a proper prefix of another key,
   hence independent of the order of the keys; with view_reject_unchanged above this is the full
   "inputs it cannot represent are rejected without altering an existing view" for leaf/node conflicts *)
Theorem C17_leafnode_check_exact : forall ks,
  (forall k, In k ks -> k <> []) ->
  (check_structure ks = true <-> forall k k', In k ks -> In k' ks -> proper_prefix k k' = false).
Proof. exact check_structure_iff. Qed.
Print Assumptions C17_leafnode_check_exact.

Theorem C17_leafnode_check_order_independent : forall ks ks',
  (forall k, In k ks -> k <> []) -> (forall k, In k ks <-> In k ks') ->
  check_structure ks = check_structure ks'.
Proof. exact check_structure_order_independent. Qed.
Print Assumptions C17_leafnode_check_order_independent.

Theorem C17_leafnode_rejected_both_orders :
  run [] world0 (mkcall [mkjob s_j1 pf_a6; mkjob s_j2 pf_a6job5]) = (Err ERuntimeError, (world0, 0%N)) /\
  run [] world0 (mkcall [mkjob s_j2 pf_a6job5; mkjob s_j1 pf_a6]) = (Err ERuntimeError, (world0, 0%N)).
Proof. exact leafnode_rejected_both_orders. Qed.
Print Assumptions C17_leafnode_rejected_both_orders.

(* ---------------------------------------------------------------- one link per selected job, containment *)
(* an accepted link map has exactly one, distinct key per selected job — also for the empty selection
   (cfcb328) — and no key is absolute, "..", or starts with "../" (55c0c50, bfa6c64) *)
Theorem C17_one_key_per_job : forall c lk,
  make_links c = Ok lk ->
  NoDup (map fst lk) /\ (forall k, In k (map fst lk) -> leaves_view k = false) /\
  length lk = length (c_jobs c).
Proof. exact make_links_spec. Qed.
Print Assumptions C17_one_key_per_job.

Theorem C17_duplicate_paths_rejected : forall js1 j1 js2 j2 js3 acc p,
  j_pf j1 = Ok p -> j_pf j2 = Ok p ->
  exists e, build_links (js1 ++ j1 :: js2 ++ j2 :: js3) acc = Err e.
Proof. exact duplicate_paths_rejected. Qed.
Print Assumptions C17_duplicate_paths_rejected.

(* containment: a key that passes the guard is a relative path without any ".." component *)
Theorem C17_view_contained : forall p,
  leaves_view (normpath_str (join_leaf p)) = false ->
  exists r, normpath_str (join_leaf p) = join_sep r /\ Forall (fun c => updir c = false) r.
Proof. exact key_contained. Qed.
Print Assumptions C17_view_contained.

Theorem C17_escaping_keys_rejected :
  run [] world0 (mkcall [mkjob s_j1 pf_abs; mkjob s_j2 pf_a6]) = (Err ERuntimeError, (world0, 0%N)) /\
  run [] world0 (mkcall [mkjob s_j1 s_dotdot; mkjob s_j2 pf_a6]) = (Err ERuntimeError, (world0, 0%N)).
Proof. exact escaping_keys_rejected. Qed.
Print Assumptions C17_escaping_keys_rejected.

(* ---------------------------------------------------------------- the dead-branch analysis, for all inputs *)
(* a branch is reported dead iff it is a node of the tree of existing paths and no key passes through it *)
Theorem C17_dead_branches_exact : forall existing ks b,
  In b (find_dead_branches (analysis_tree existing ks) []) <->
  (is_nil b || any_prefix b existing) = true /\ any_prefix b ks = false.
Proof. exact analysis_dead. Qed.
Print Assumptions C17_dead_branches_exact.

Theorem C17_dead_branches_nodup : forall existing ks,
  NoDup (find_dead_branches (analysis_tree existing ks) []).
Proof. exact analysis_dead_NoDup. Qed.
Print Assumptions C17_dead_branches_nodup.

(* ---------------------------------------------------------------- the from-scratch build is exact *)
(* For every tree w, every plain absolute prefix P whose parent exists and that does not exist itself,
   every specification sp (distinct token lists; tokens plain file names other than the leaf name, so
   no "", ".", "..", "job", separator), every tie-break hint and cwd: _update_view succeeds and below P
   there is exactly: one link T/job per entry (T, dir) with the relative target the code computes, the
   directories leading to the links, nothing else; every path not below P keeps its kind (nothing else
   is touched); at least one operation is performed unless sp is empty. *)
Theorem C17_view_exact_from_scratch : forall P (sp : spec) hint w n cwd,
  P <> [] -> Forall plain P -> good_spec sp -> dirs_to w (removelast P) -> get w P = None ->
  exists w' k,
    update_view hint (w, n) cwd (A P) (lk_of sp) = ok (w', (n + k)%N) /\
    (sp <> [] -> (0 < k)%N) /\
    (forall q, kind_at w' (P ++ q) = vk (negb (is_nil sp)) (map (placed P cwd) sp) q) /\
    (forall r, is_prefix P r = false -> kind_at w' r = kind_at w r).
Proof. exact from_scratch_exact. Qed.
Print Assumptions C17_view_exact_from_scratch.

(* one more link in an existing plain view: the step every update is made of *)
Theorem C17_make_link_step : forall P, P <> [] -> Forall plain P ->
  forall w ex cur T src n cwd,
  Inv P w ex cur -> Forall tok T -> ~ In T (map fst cur) ->
  exists w' k,
    make_link (w, n) cwd src (A ((P ++ T) ++ [s_job])) = ok (w', N.succ (n + k)) /\
    Inv P w' true (cur ++ [(T, src)]) /\
    (forall r, is_prefix P r = false -> kind_at w' r = kind_at w r).
Proof. exact link_step. Qed.
Print Assumptions C17_make_link_step.

(* ---------------------------------------------------------------- the incremental update is exact *)
(* view_exact, on plain views.  For every tree w (one entry per name) whose prefix P holds exactly the view
   of an OLD plain specification so (one-job views with the link at the root included) with links that resolve to the
   directories they were made for, every NEW plain specification sn, every hint and cwd: _update_view
   succeeds and afterwards there is below P exactly the view of sn — one link per entry with the target
   the code computes, the directories leading to them, nothing else (no obsolete, stale or duplicate
   link, no empty directory) — and no path outside P changes its kind.  so and sn are arbitrary: any
   additions, removals and re-keys between two runs.  PARTIAL only in that tokens must differ from the leaf
   name "job" (open finding 5, refuted below) and the tree must have one entry per name. *)
Theorem C17_view_exact_partial : forall P (so sn : spec) hint w n cwd,
  P <> [] -> Forall plain P -> good_spec so -> good_spec sn -> nwf w ->
  Inv P w true (map (placed P cwd) so) ->
  (forall e, In e so -> realpath w cwd (pjoin (A P) (key_of e)) = snd e) ->
  exists w' k,
    update_view hint (w, n) cwd (A P) (lk_of sn) = ok (w', (n + k)%N) /\
    (forall q, kind_at w' (P ++ q) = vk true (map (placed P cwd) sn) q) /\
    (forall r, is_prefix P r = false -> kind_at w' r = kind_at w r).
Proof. exact incremental_exact. Qed.
Print Assumptions C17_view_exact_partial.

(* view_incremental_eq_scratch for ANY two plain link maps: updating the old view and building the
   new one from scratch (in any tree where the prefix does not exist) give the same kind — same link
   text, same directories, same absences — at every path below the prefix. *)
Theorem C17_view_incremental_eq_scratch_partial : forall P (so sn : spec) hint hint' w ws n n' cwd,
  P <> [] -> Forall plain P -> good_spec so -> good_spec sn -> nwf w ->
  Inv P w true (map (placed P cwd) so) ->
  (forall e, In e so -> realpath w cwd (pjoin (A P) (key_of e)) = snd e) ->
  dirs_to ws (removelast P) -> get ws P = None ->
  exists wi ki wsc ksc,
    update_view hint (w, n) cwd (A P) (lk_of sn) = ok (wi, (n + ki)%N) /\
    update_view hint' (ws, n') cwd (A P) (lk_of sn) = ok (wsc, (n' + ksc)%N) /\
    forall q, q <> [] \/ sn <> [] -> kind_at wi (P ++ q) = kind_at wsc (P ++ q).
Proof. exact incremental_eq_scratch. Qed.
Print Assumptions C17_view_incremental_eq_scratch_partial.

(* ---------------------------------------------------------------- no dangling link *)
(* the link T/job with the relative target the code computes resolves (os.path.realpath in the model
   tree) to the job directory, whenever that directory exists; for every cwd *)
Theorem C17_view_links_resolve : forall P T tgt w cwd,
  P <> [] -> Forall plain (P ++ T) -> Forall real (P ++ T) ->
  Forall plain tgt -> Forall nosep tgt -> dirs_to w tgt -> dirs_to w (P ++ T) ->
  Forall tok T ->
  get w ((P ++ T) ++ [s_job]) = Some (Lnk (link_target cwd (A P) (T ++ [s_job]) tgt)) ->
  realpath w cwd (pjoin (A P) (T ++ [s_job])) = tgt.
Proof. exact link_target_resolves. Qed.
Print Assumptions C17_view_links_resolve.

(* ---------------------------------------------------------------- running twice *)
(* the scan of an existing plain view finds exactly the directories of its links *)
Theorem C17_scan_exact : forall P, P <> [] -> Forall plain P ->
  forall w cwd cur,
  Inv P w true cur -> nwf w ->
  forall d, In d (find_all_links w cwd (A P)) <-> exists T, In T (map fst cur) /\ d = rootdot T.
Proof. exact scan_of_inv. Qed.
Print Assumptions C17_scan_exact.

(* view_idempotent.  For every tree (one entry per name) whose prefix holds exactly the view of a plain
   specification — one-job views with the link at the root of the prefix included since bfa6c64 — and whose
   links resolve to the job directories, _update_view returns the state unchanged: same tree, same
   operation counter, for every hint and cwd.  "partial" only for the plain-token restriction. *)
Theorem C17_view_idempotent_partial : forall P (sp : spec) hint w n cwd,
  P <> [] -> Forall plain P -> good_spec sp -> nwf w ->
  Inv P w true (map (placed P cwd) sp) ->
  (forall e, In e sp -> realpath w cwd (pjoin (A P) (key_of e)) = snd e) ->
  update_view hint (w, n) cwd (A P) (lk_of sp) = ok (w, n).
Proof. exact second_run_noop. Qed.
Print Assumptions C17_view_idempotent_partial.

(* ... and the hypotheses are what a fresh build establishes: build from scratch, run again = no-op.
   ([nwf w'] — one entry per name in the tree the first run produced — is kept as a hypothesis; it is
   not proved to be preserved by the model's tree update.) *)
Theorem C17_view_fresh_then_noop : forall P (sp : spec) hint hint2 w n cwd w' n',
  P <> [] -> Forall plain P -> Forall real P -> good_spec sp ->
  (forall e, In e sp -> Forall real (fst e)) -> good_targets P w sp ->
  dirs_to w (removelast P) -> get w P = None ->
  update_view hint (w, n) cwd (A P) (lk_of sp) = ok (w', n') -> nwf w' ->
  update_view hint2 (w', n') cwd (A P) (lk_of sp) = ok (w', n').
Proof. exact scratch_then_second_run_noop. Qed.
Print Assumptions C17_view_fresh_then_noop.

Theorem C17_view_one_job_noop :
  let c := mkcall [mkjob s_j1 []] in
  let '(r1, (w1, n1)) := run [] world0 c in
  let '(r2, (w2, n2)) := run [] w1 c in
  is_ok r1 = true /\ is_ok r2 = true /\ w2 = w1 /\ n2 = 0%N /\ get w1 [s_v; s_job] <> None.
Proof. exact single_job_noop. Qed.
Print Assumptions C17_view_one_job_noop.

(* ---------------------------------------------------------------- empty selection (repaired), and the one open finding (5) *)
Theorem C17_empty_selection_no_link :
  run [] world0 (mkcall []) = (Ok [], (world0, 0%N)) /\
  (let '(r1, (w1, _)) := run [] world0 (mkcall [mkjob s_j1 pf_a6; mkjob s_j2 [97%N; 47%N; 53%N]]) in
   let '(r2, (w2, _)) := run [] w1 (mkcall []) in
   is_ok r1 = true /\ r2 = Ok [] /\ get w1 [s_v; s_a] <> None /\ get w2 [s_v] = Some (Dir [])).
Proof. exact empty_selection_no_link. Qed.
Print Assumptions C17_empty_selection_no_link.

Theorem C17_view_exact_refuted_leaf_name_token :
  let '(r1, (w1, _)) := run [] world0 (mkcall [mkjob s_j1 []]) in
  let '(r2, (w2, _)) := run [] w1 (mkcall [mkjob s_j2 pf_job5]) in
  is_ok r1 = true /\ is_ok r2 = true /\ get w1 [s_p; s_j1; s_5] = None /\ get w2 [s_p; s_j1; s_5; s_job] <> None.
Proof. exact leaf_name_token_pollutes. Qed.
Print Assumptions C17_view_exact_refuted_leaf_name_token.

(* ---------------------------------------------------------------- licence for the correspondence step *)
(* If the implementation's observation agrees with the model on a case, the oracle's verdict on the
   implementation's observation IS its verdict on what the model produces for that input. *)
Theorem C17_model_holds : forall k,
  mismatch_C17 k = false -> holds_C17 k = holds_C17 (model_case k).
Proof. exact model_agreement_transfers. Qed.
Print Assumptions C17_model_holds.

(* non-vacuity: the hypotheses of the from-scratch theorem are satisfiable by a concrete world *)
Example C17_example_hypotheses :
  let P := [s_v] in let sp : spec := [([s_a; s_6], [s_p; s_j1]); ([s_a; s_5], [s_p; s_j2])] in
  P <> [] /\ Forall plain P /\ good_spec sp /\ dirs_to world0 (removelast P) /\ get world0 P = None.
Proof.
  simpl. split; [discriminate|]. split; [repeat constructor|]. split.
  - split.
    + repeat constructor; simpl; intuition discriminate.
    + intros e [<-|[<-|[]]]; simpl; repeat constructor; try discriminate;
        unfold nosep, SEP; simpl; intuition discriminate.
  - split; [|reflexivity]. intros d1 d2 E. symmetry in E. apply app_eq_nil in E. destruct E as [-> _]. reflexivity.
Qed.
