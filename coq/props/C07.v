(* C07 — all query front ends, cursors and groupby agree with find_jobs.
   Statements only; proofs in SV.C07Proofs. *)
From SV Require Import Base Json PyVal Query Canon Front C07Proofs C07Order C07OrderGen CorrC06 CorrC07.
From Coq Require Import Sorted.
From Coq Require Import Permutation.

(* nested mapping vs dotted key; with b = "$op" also operator-as-nested-mapping vs key suffix *)
Theorem C07_nested_eq_dotted : forall rs ic f c a b v,
  plain_key a = true -> plain_key (a ++ dot :: b) = true -> shallow v = true ->
  find_result rs ic (Datatypes.S (Datatypes.S (Datatypes.S f))) c (JObj [(a, JObj [(b, v)])]) =
  find_result rs ic (Datatypes.S (Datatypes.S (Datatypes.S f))) c (JObj [(a ++ dot :: b, v)]).
Proof. exact nested_eq_dotted. Qed.
Print Assumptions C07_nested_eq_dotted.

(* a filter is seen only through its flattened leaves and logical parts: any two spellings with the
   same flattening select the same jobs *)
Theorem C07_same_flattening_same_result : forall rs ic f c kv kvs kv' kvs',
  flatten (Datatypes.S f) None (JObj (strip_logical (kv :: kvs))) =
  flatten (Datatypes.S f) None (JObj (strip_logical (kv' :: kvs'))) ->
  alookup s_or (kv :: kvs) = alookup s_or (kv' :: kvs') ->
  alookup s_and (kv :: kvs) = alookup s_and (kv' :: kvs') ->
  alookup s_not (kv :: kvs) = alookup s_not (kv' :: kvs') ->
  find_result rs ic (Datatypes.S f) c (JObj (kv :: kvs)) = find_result rs ic (Datatypes.S f) c (JObj (kv' :: kvs')).
Proof. exact find_result_ext. Qed.
Print Assumptions C07_same_flattening_same_result.

(* with or without the default sp. prefix *)
Theorem C07_prefix_default_sp : forall k, unprefixed k = true ->
  prefix_key k = s_sp ++ dot :: k /\ prefix_key (s_sp ++ dot :: k) = s_sp ++ dot :: k.
Proof. exact prefix_default_sp. Qed.
Print Assumptions C07_prefix_default_sp.

Theorem C07_prefix_key_idempotent : forall k, prefix_key (prefix_key k) = prefix_key k.
Proof. exact prefix_key_idempotent. Qed.
Print Assumptions C07_prefix_key_idempotent.

(* command-line token syntax: casting the printed form of a value gives the value back *)
Theorem C07_cli_int_roundtrip : forall float_of z, cast float_of (dec_Z z) = JInt z.
Proof. exact cast_int_roundtrip. Qed.
Print Assumptions C07_cli_int_roundtrip.

Theorem C07_cli_consts : forall float_of,
  cast float_of t_true = JBool true /\ cast float_of t_false = JBool false /\ cast float_of t_nullw = JNull.
Proof. exact cast_consts. Qed.
Print Assumptions C07_cli_consts.

Theorem C07_cli_str_roundtrip : forall float_of s,
  str_eqb s t_true = false -> str_eqb s t_false = false -> str_eqb s t_nullw = false ->
  parse_int s = None -> float_of s = None -> cast float_of s = JStr s.
Proof. exact cast_str_roundtrip. Qed.
Print Assumptions C07_cli_str_roundtrip.

Theorem C07_cli_float_roundtrip : forall float_of (frepr : fl -> str) f,
  float_of (frepr f) = Some f -> parse_int (frepr f) = None ->
  str_eqb (frepr f) t_true = false -> str_eqb (frepr f) t_false = false -> str_eqb (frepr f) t_nullw = false ->
  cast float_of (frepr f) = JFloat f.
Proof. exact cast_float_roundtrip. Qed.
Print Assumptions C07_cli_float_roundtrip.

(* cursor: length, indexing and membership all describe the cached id list *)
Theorem C07_cursor_consistent : forall ids,
  cursor_len ids = length ids /\
  (forall i, i < length ids -> exists j, cursor_getitem ids i = Some j /\ In j ids) /\
  (forall j, cursor_contains ids j = true <-> In j ids).
Proof. exact cursor_consistent. Qed.
Print Assumptions C07_cursor_consistent.

(* groupby: the groups hold exactly the labelled (selected) jobs, each once per selection.
   The four groupby theorems are stated for an ARBITRARY labelled list ls, so they cover every way the labels come
   about: a key, a tuple of keys, a default, key None (label = the job id) and a caller's function (CaseGroupFn of
   CorrC07.v, where the labels are a table the harness obtains by applying the function to each job by itself). *)
Theorem C07_groupby_members_exact : forall ls,
  Permutation (map snd ls) (flat_map snd (group_adjacent (sort_labeled ls) None)).
Proof. exact groupby_members_exact. Qed.
Print Assumptions C07_groupby_members_exact.

(* groupby: a group's label is the own value of its first member and equals (Python ==) the own
   value of every other member *)
Theorem C07_groupby_label_is_members_value : forall ls g i,
  In g (group_adjacent (sort_labeled ls) None) -> In i (snd g) ->
  exists lab, In (lab, i) ls /\ agrees (fst g) lab.
Proof. exact groupby_label_is_members_value. Qed.
Print Assumptions C07_groupby_label_is_members_value.

(* groupby: for mutually orderable labels -- numbers, booleans, strings, and (nested) lists of them: the
   tuple labels of a multi-key groupby and list-valued keys included -- the groups' labels are strictly
   increasing under Python's order, hence any two groups have different (Python ==) labels: together
   with the two theorems above the groups partition the selected jobs by value.  (Labels that are None or
   mappings are not orderable: sorted() raises TypeError, which the model reproduces.) *)
Theorem C07_groupby_labels_increasing : forall ls,
  (forall y, In y ls -> ordv (fst y) = true) -> orderable (map fst ls) ->
  StronglySorted grp_lt (group_adjacent (sort_labeled ls) None).
Proof. exact groupby_labels_increasing_g. Qed.
Print Assumptions C07_groupby_labels_increasing.

Theorem C07_groupby_labels_distinct : forall ls g h pre mid post,
  (forall y, In y ls -> ordv (fst y) = true) -> orderable (map fst ls) ->
  group_adjacent (sort_labeled ls) None = pre ++ g :: mid ++ h :: post ->
  py_eq (fst g) (fst h) = false.
Proof. exact groupby_labels_distinct_g. Qed.
Print Assumptions C07_groupby_labels_distinct.

(* Python's order on such labels: == is order-equality, and <= is transitive with its strict part *)
Theorem C07_label_order_eq : forall a, ordv a = true -> forall b, ordv b = true ->
  (py_order a b = Some Eq <-> py_eq a b = true).
Proof. exact ord_eq_iff. Qed.
Print Assumptions C07_label_order_eq.

Theorem C07_label_order_trans : forall a b c, ordv a = true -> ordv b = true -> ordv c = true ->
  le_lab a b -> le_lab b c -> (exists k, py_order a c = Some k) ->
  le_lab a c /\ (py_order a c = Some Eq -> py_order a b = Some Eq /\ py_order b c = Some Eq).
Proof. exact ord_le_trans. Qed.
Print Assumptions C07_label_order_trans.

Example C07_example_tuple_labels :
  ordv (JArr [JInt 1; JStr [97%N]]) = true /\ ordv (JArr [JArr [JInt 1; JFloat (3%Z, (-1)%Z)]; JBool true]) = true /\
  py_order (JArr [JInt 1; JStr [97%N]]) (JArr [JFloat (1%Z, 0%Z); JStr [98%N]]) = Some Lt /\
  py_order (JArr [JInt 1; JStr [97%N]]) (JArr [JInt 2; JInt 5]) = Some Lt.
Proof. exact ordv_examples. Qed.

Example C07_example_tokens :
  parse_filter_arg (fun _ => None) (fun _ => None) [[97%N]; [52%N; 50%N]] = Ok (Some (JObj [([97%N], JInt 42)])).
Proof. vm_compute. reflexivity. Qed.
