(* C11 — crashes and I/O errors in lifecycle operations never lose data or forge a job. *)
From SV Require Import Base Json MD5 Canon FS Proc Crash CorrC11 C11Proofs.

Theorem C11_prefix_induction : forall A (I : prog A -> fs -> Prop) (Q : fs -> Prop),
  (forall p f, I p f -> Q f) ->
  (forall c k f f' r, I (Do c k) f -> exec_res f c = (f', r) -> I (k r) f') ->
  (forall q d k f n f', I (Do (CWrite q d) k) f -> (0 < n < length (c_bytes d))%nat ->
                        write_open f q (torn_content d n) = FOk f' -> Q f') ->
  forall p f g, I p f -> crash_states p f g -> Q g.
Proof. exact crashed_ind_inv. Qed.
Print Assumptions C11_prefix_induction.
