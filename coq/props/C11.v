(* C11 — crashes and I/O errors in lifecycle operations never lose data or forge a job.
   This file only states theorems; proofs live in SV.Proc / SV.C11Proofs.

   Model: SV.Crash (the lifecycle operations call by call), under the crash / fault semantics of SV.Proc.
   [WInv frepr wss f0]: f0 is a well-formed tree, the workspaces [wss] are directories and every listed job
   directory validates.  [CInv frepr op wss f0 f] (executable: Crash.cinv_b on the model's own recovery
   observation): (1) every entry outside the affected job directories is unchanged, (2) unless the operation
   is a removal every data file of the job exists under exactly one affected directory, (3) every listed
   directory validates or is reported by check(), (4) a directory validates only with a state point from the
   job's history.

   Status: crash_safe_init / _rekey / _move / _clone / _remove / _clear FULL (all crash points incl. torn
   writes, both write protocols, job trees of any shape and listing order);
   fault_safe_move FULL and for EVERY fault plan (single, double, ... faults): exception => pre-state;
   fault_safe_remove / _clear FULL for every fault plan (CInv; removals destroy data by design);
   fault_safe_clone _partial (CInv for every fault plan; completeness of the clean-up / of the copy not proved);
   the former refutation of clone (partial copy left behind) is gone: repaired in /repo (b1f8528);
   fault_safe_init FULL for every fault plan; fault_safe_rekey FULL for every fault plan whose errnos are not
   ENOENT (which signac reads as "not there"; excluded by the property): CInv, and a normal return means the
   operation is complete;
   rekey_fault_restores_handle FULL for the stated positions (one injected error, not ENOENT, at the load, the
   parking of the state point file, the directory rename; any call when the destination is occupied): after
   the exception the handle's in-memory state point is the on-disk one (repair 8529336 of known finding 4).
   Every stat of the operations is a step of the programs (a failing stat reads as "False" in isfile / isdir /
   exists / lexists); the two places where that broke the property (findings 5, 6) are repaired (187ceef,
   ed42bbc): clone_existing_untouched FULL, and the former failing inputs are regression witnesses. *)
From SV Require Import Base Json MD5 Canon FS Proc Crash CorrC11 C11Proofs C11Remove C11Clone C11Fault C11Clear.

(* the prefix induction principle of the crash semantics *)
Theorem C11_prefix_induction : forall A (I : prog A -> fs -> Prop) (Q : fs -> Prop),
  (forall p f, I p f -> Q f) ->
  (forall c k f f' r, I (Do c k) f -> exec_res f c = (f', r) -> I (k r) f') ->
  (forall q d k f n f', I (Do (CWrite q d) k) f -> (0 < n < length (c_bytes d))%nat ->
                        write_open f q (torn_content d n) = FOk f' -> Q f') ->
  forall p f g, I p f -> crash_states p f g -> Q g.
Proof. exact crashed_ind_inv. Qed.
Print Assumptions C11_prefix_induction.

(* Job.init: for every crash point (incl. every torn offset of the state point write) of either write
   protocol, from a valid workspace in which the job exists or not *)
Theorem C11_crash_safe_init : forall frepr wss f0 w1 w2 wr sp force atomic g,
  WInv frepr wss f0 -> In (w1 :: w2 :: wr) wss -> is_jnull sp = false ->
  crash_states (op_prog frepr atomic (KInit (w1 :: w2 :: wr) sp force)) f0 g ->
  CInv frepr (KInit (w1 :: w2 :: wr) sp force) wss f0 g.
Proof. exact crash_safe_init_thm. Qed.
Print Assumptions C11_crash_safe_init.

(* the re-key protocol (sp[k] = v, update_statepoint) of an existing valid job: the intermediate states
   "state point parked as signac_statepoint.json~", "directory renamed, only the backup inside", "backup
   removed", "state point being written (torn)", and the rolled-back states on an occupied destination.
   Side condition on the pre-state: no stale temp file of an interrupted earlier write in the job directory. *)
Theorem C11_crash_safe_rekey : forall frepr wss f0 w1 w2 wr old nsp atomic g,
  WInv frepr wss f0 -> In (w1 :: w2 :: wr) wss -> In old (job_dirs f0 (w1 :: w2 :: wr)) ->
  old <> calc_id frepr nsp ->
  get f0 (((w1 :: w2 :: wr) ++ [old]) ++ [TMPPFX ++ [] ++ SPF]) = None ->
  is_jnull nsp = false ->
  crash_states (op_prog frepr atomic (KRekey (w1 :: w2 :: wr) old nsp)) f0 g ->
  CInv frepr (KRekey (w1 :: w2 :: wr) old nsp) wss f0 g.
Proof. exact crash_safe_rekey_thm. Qed.
Print Assumptions C11_crash_safe_rekey.

(* a re-key that does not change the id performs no mutation at all *)
Theorem C11_crash_safe_rekey_same_id : forall frepr wss f0 ws old nsp atomic g,
  WInv frepr wss f0 -> In ws wss -> In old (job_dirs f0 ws) -> calc_id frepr nsp = old ->
  crash_states (op_prog frepr atomic (KRekey ws old nsp)) f0 g -> g = f0.
Proof. exact crash_safe_rekey_same. Qed.
Print Assumptions C11_crash_safe_rekey_same_id.

(* Job.move into a project whose workspace exists *)
Theorem C11_crash_safe_move : forall frepr wss f0 ws dws i atomic g,
  WInv frepr wss f0 -> In ws wss -> In dws wss -> In i (job_dirs f0 ws) ->
  crash_states (op_prog frepr atomic (KMove ws i dws)) f0 g ->
  CInv frepr (KMove ws i dws) wss f0 g.
Proof. exact crash_safe_move_thm. Qed.
Print Assumptions C11_crash_safe_move.

(* Project.clone (shutil.copytree over a job tree of any shape, then — after a failed copy into a directory
   this call created — shutil.rmtree(ignore_errors)): nothing outside the new directory changes, the new
   directory is absent or a directory, and its state point file is absent, not parseable (empty / torn) or
   the complete copy of the source's — so it never validates with anything but the source's state point; if
   the destination exists (other project, or the same project) nothing is touched at all *)
Theorem C11_crash_safe_clone : forall frepr wss f0 ws dws i atomic g,
  WInv frepr wss f0 -> In ws wss -> In dws wss -> In i (job_dirs f0 ws) ->
  crash_states (op_prog frepr atomic (KClone ws i dws)) f0 g ->
  CInv frepr (KClone ws i dws) wss f0 g.
Proof. exact crash_safe_clone_thm. Qed.
Print Assumptions C11_crash_safe_clone.

(* Job.remove (shutil.rmtree over a job tree of any shape, any listing order): every crash state arises from
   the pre-state by deleting entries below the job directory only *)
Theorem C11_crash_safe_remove : forall frepr wss f0 ws i atomic g,
  WInv frepr wss f0 -> In ws wss -> In i (job_dirs f0 ws) ->
  crash_states (op_prog frepr atomic (KRemove ws i)) f0 g ->
  CInv frepr (KRemove ws i) wss f0 g.
Proof. exact crash_safe_remove_thm. Qed.
Print Assumptions C11_crash_safe_remove.

(* Job.clear: deletions below the job directory, then the document rewritten through its temp file (torn
   temp file included); the state point file is never touched *)
Theorem C11_crash_safe_clear : forall frepr wss f0 ws i atomic g,
  WInv frepr wss f0 -> In ws wss -> In i (job_dirs f0 ws) ->
  crash_states (op_prog frepr atomic (KClear ws i)) f0 g ->
  CInv frepr (KClear ws i) wss f0 g.
Proof. exact crash_safe_clear_thm. Qed.
Print Assumptions C11_crash_safe_clear.

(* Job.move under EVERY fault plan (any number of failing calls, any errnos): CInv holds, a normal return
   means the move is complete, an exception means the tree is exactly the pre-state *)
Theorem C11_fault_safe_move : forall frepr wss f0 ws dws i atomic plan,
  WInv frepr wss f0 -> In ws wss -> In dws wss -> In i (job_dirs f0 ws) -> length dws = 2%nat ->
  let '(g, out) := run_fault plan 0 (op_prog frepr atomic (KMove ws i dws)) f0 in
  CInv frepr (KMove ws i dws) wss f0 g /\
  match out with
  | inl _ => post_ok frepr (KMove ws i dws) f0 g = true
  | inr _ => g = f0
  end.
Proof. exact fault_safe_move_thm. Qed.
Print Assumptions C11_fault_safe_move.

(* Job.init under EVERY fault plan (any number of failing calls, any errnos, stats included): CInv, and a
   normal return means the job directory validates and keeps its data.  Pre-state side condition: no stale
   temp file (automatic when the job directory does not exist) *)
Theorem C11_fault_safe_init : forall frepr wss f0 w1 w2 wr sp force atomic plan,
  WInv frepr wss f0 -> In (w1 :: w2 :: wr) wss -> is_jnull sp = false ->
  get f0 (((w1 :: w2 :: wr) ++ [calc_id frepr sp]) ++ [TMPPFX ++ [] ++ SPF]) = None ->
  let o := KInit (w1 :: w2 :: wr) sp force in
  let '(g, out) := run_fault plan 0 (op_prog frepr atomic o) f0 in
  CInv frepr o wss f0 g /\ (out = inl tt -> post_ok frepr o f0 g = true).
Proof. exact fault_safe_init_thm. Qed.
Print Assumptions C11_fault_safe_init.

(* the re-key protocol under EVERY fault plan without ENOENT: the rollback path (failing directory rename,
   failing rollback, failing re-read), the failing backup removal, and every fault inside the final init *)
Theorem C11_fault_safe_rekey : forall frepr wss f0 w1 w2 wr old nsp atomic plan,
  WInv frepr wss f0 -> In (w1 :: w2 :: wr) wss -> In old (job_dirs f0 (w1 :: w2 :: wr)) ->
  old <> calc_id frepr nsp ->
  get f0 (((w1 :: w2 :: wr) ++ [old]) ++ [TMPPFX ++ [] ++ SPF]) = None ->
  is_jnull nsp = false ->
  (forall m, plan m <> Some ENOENT) ->
  let o := KRekey (w1 :: w2 :: wr) old nsp in
  let '(g, out) := run_fault plan 0 (op_prog frepr atomic o) f0 in
  CInv frepr o wss f0 g /\ (out = inl tt -> post_ok frepr o f0 g = true).
Proof. exact fault_safe_rekey_thm. Qed.
Print Assumptions C11_fault_safe_rekey.

(* The whole-assignment route `job.statepoint = nsp` through a handle opened BY ID that never read its state point
   (state point cache miss; seeded trial C11-12): the protocol runs without the validating read that the other
   routes perform first (Crash.op_prog_r ... true = the bare protocol).  Same guarantees, every crash point
   and every fault plan without ENOENT. *)
Theorem C11_crash_safe_assign : forall frepr wss f0 w1 w2 wr old nsp atomic g,
  WInv frepr wss f0 -> In (w1 :: w2 :: wr) wss -> In old (job_dirs f0 (w1 :: w2 :: wr)) ->
  old <> calc_id frepr nsp ->
  get f0 (((w1 :: w2 :: wr) ++ [old]) ++ [TMPPFX ++ [] ++ SPF]) = None ->
  is_jnull nsp = false ->
  crash_states (op_prog_r frepr atomic true (KRekey (w1 :: w2 :: wr) old nsp)) f0 g ->
  CInv frepr (KRekey (w1 :: w2 :: wr) old nsp) wss f0 g.
Proof. exact crash_safe_assign_thm. Qed.
Print Assumptions C11_crash_safe_assign.

Theorem C11_fault_safe_assign : forall frepr wss f0 w1 w2 wr old nsp atomic plan,
  WInv frepr wss f0 -> In (w1 :: w2 :: wr) wss -> In old (job_dirs f0 (w1 :: w2 :: wr)) ->
  old <> calc_id frepr nsp ->
  get f0 (((w1 :: w2 :: wr) ++ [old]) ++ [TMPPFX ++ [] ++ SPF]) = None ->
  is_jnull nsp = false ->
  (forall m, plan m <> Some ENOENT) ->
  let o := KRekey (w1 :: w2 :: wr) old nsp in
  let '(g, out) := run_fault plan 0 (op_prog_r frepr atomic true o) f0 in
  CInv frepr o wss f0 g /\ (out = inl tt -> post_ok frepr o f0 g = true).
Proof. exact fault_safe_assign_thm. Qed.
Print Assumptions C11_fault_safe_assign.

(* Job.remove / Job.clear under EVERY fault plan: a failing call has no effect, so the state is still the
   pre-state minus deletions below the job directory (plus the document rewrite): CInv *)
Theorem C11_fault_safe_remove : forall frepr wss f0 ws i atomic plan,
  WInv frepr wss f0 -> In ws wss -> In i (job_dirs f0 ws) ->
  CInv frepr (KRemove ws i) wss f0 (fst (run_fault plan 0 (op_prog frepr atomic (KRemove ws i)) f0)).
Proof. exact fault_safe_remove_thm. Qed.
Print Assumptions C11_fault_safe_remove.

Theorem C11_fault_safe_clear : forall frepr wss f0 ws i atomic plan,
  WInv frepr wss f0 -> In ws wss -> In i (job_dirs f0 ws) ->
  CInv frepr (KClear ws i) wss f0 (fst (run_fault plan 0 (op_prog frepr atomic (KClear ws i)) f0)).
Proof. exact fault_safe_clear_thm. Qed.
Print Assumptions C11_fault_safe_clear.

(* Project.clone under EVERY fault plan (repaired code: b1f8528, ed42bbc).  FULL statement wanted:
     forall plan, exception => the destination is absent and the tree is the pre-state;
                  normal return => the copy is complete (post_ok).
   PROVED (hence _partial): for every fault plan — failing copy steps, failing clean-up steps, failing stats —
   CInv holds, for a fresh and for an existing destination (C11_clone_existing_untouched: an existing
   destination is not touched at all); the only plans excluded are those that inject ENOENT — which signac reads
   as "not there", outside the property — at the lstat of an existing destination (call 1).  NOT proved: that the clean-up
   removes everything after a SINGLE fault and that a normal return implies a complete copy (completeness of
   rmtree / copytree over arbitrary trees); both are checked by the correspondence for every single fault of
   the generated scenarios.  A double fault that also defeats the clean-up can leave a validating partial
   copy: known finding 3 (design-level), which CInv tolerates because the copied state point is the source's. *)
Theorem C11_fault_safe_clone_partial : forall frepr wss f0 ws dws i atomic plan,
  WInv frepr wss f0 -> In ws wss -> In dws wss -> In i (job_dirs f0 ws) ->
  get f0 (dws ++ [i]) = None \/ plan 1%nat <> Some ENOENT ->
  CInv frepr (KClone ws i dws) wss f0 (fst (run_fault plan 0 (op_prog frepr atomic (KClone ws i dws)) f0)).
Proof. exact fault_safe_clone_thm. Qed.
Print Assumptions C11_fault_safe_clone_partial.

(* FULL: an existing destination (other project or the same one) is never touched, whatever fails and however
   often — copy steps, stats, the lstat of the destination itself (ed42bbc: its error propagates before anything
   is copied; before that repair a failing lstat plus a failing copy step deleted the destination: finding 6) *)
Theorem C11_clone_existing_untouched : forall frepr wss f0 ws dws i atomic plan,
  WInv frepr wss f0 -> In ws wss -> In dws wss -> In i (job_dirs f0 ws) ->
  get f0 (dws ++ [i]) <> None -> plan 1%nat <> Some ENOENT ->
  fst (run_fault plan 0 (op_prog frepr atomic (KClone ws i dws)) f0) = f0.
Proof. exact clone_existing_untouched_thm. Qed.
Print Assumptions C11_clone_existing_untouched.

(* the former refutation witness (write error on a data file): with the repair the caller sees an exception,
   the destination is gone and every entry equals the pre-state *)
Theorem C11_fault_clone_repaired_witness :
  match find_occ cw_sig 0 (map fst (trace (op_prog cw_repr true cw_op) cw_f0)) 0 with
  | None => False
  | Some k =>
      let '(g, out) := run_fault (single k EIO) 0 (op_prog cw_repr true cw_op) cw_f0 in
      (exists e, out = inr e) /\ exists_ g (cw_b ++ [cw_id]) = false /\
      forallb (fun e => node_same (get cw_f0 (fst e)) (get g (fst e))) (cw_f0 ++ g) = true
  end.
Proof. exact clone_fault_repaired_witness. Qed.
Print Assumptions C11_fault_clone_repaired_witness.

(* The HANDLE after a handled error (Crash.rekey_h / op1_h carry the handle's id and in-memory state point to
   every exit; rekey_h_forget: forgetting them gives the program the other theorems speak about).
   A re-key REJECTED by one injected I/O error (any errno but ENOENT) at the initial load (0), the parking of
   the state point file (1) or the directory rename (2), or — destination occupied, so that the directory
   rename fails by itself — at any call: exception, the handle keeps the old id, and whenever the state point
   file is in place afterwards it holds the pre-state value and the handle has either not loaded a state point
   (the next access loads the file) or holds exactly that value.  A later change through the same handle
   cannot smuggle the rejected one in (known finding 4, fixed in 8529336: before, call 1 left the rejected
   value in memory). *)
Theorem C11_rekey_fault_restores_handle : forall frepr wss f0 w1 w2 wr old nsp,
  WInv frepr wss f0 -> In (w1 :: w2 :: wr) wss -> In old (job_dirs f0 (w1 :: w2 :: wr)) ->
  old <> calc_id frepr nsp ->
  get f0 (((w1 :: w2 :: wr) ++ [old]) ++ [SPT]) <> Some Dir ->
  forall atomic k e, e <> ENOENT ->
  k <= 2 \/ occupied frepr f0 w1 w2 wr nsp = true ->
  exists f h x,
    run_fault (single k e) 0 (rk_obs frepr w1 w2 wr old nsp atomic) f0 = (f, inl (h, inr x)) /\
    hs_ws h = w1 :: w2 :: wr /\ hs_id h = old /\
    forall v, sp_value f (w1 :: w2 :: wr) old = Some v ->
      sp_value f0 (w1 :: w2 :: wr) old = Some v /\ (hs_sp h = None \/ hs_sp h = Some v).
Proof. exact rekey_fault_restores_handle. Qed.
Print Assumptions C11_rekey_fault_restores_handle.

(* The same for `job.statepoint = nsp` through a handle that never loaded its state point (seeded trial C11-12:
   a restore from the handle's cached state point does nothing for such a handle; the code re-reads the restored
   FILE, so the provenance of the handle does not matter).  Call 0 = the parking of the state point file, call 1 =
   the directory rename; with an occupied destination any call. *)
Theorem C11_assign_fault_restores_handle : forall frepr wss f0 w1 w2 wr old nsp,
  WInv frepr wss f0 -> In (w1 :: w2 :: wr) wss -> In old (job_dirs f0 (w1 :: w2 :: wr)) ->
  old <> calc_id frepr nsp ->
  get f0 (((w1 :: w2 :: wr) ++ [old]) ++ [SPT]) <> Some Dir ->
  forall atomic k e, e <> ENOENT ->
  k <= 1 \/ occupied frepr f0 w1 w2 wr nsp = true ->
  exists f h x,
    run_fault (single k e) 0 (as_obs frepr w1 w2 wr old nsp atomic) f0 = (f, inl (h, inr x)) /\
    hs_ws h = w1 :: w2 :: wr /\ hs_id h = old /\
    forall v, sp_value f (w1 :: w2 :: wr) old = Some v ->
      sp_value f0 (w1 :: w2 :: wr) old = Some v /\ (hs_sp h = None \/ hs_sp h = Some v).
Proof. exact assign_fault_restores_handle. Qed.
Print Assumptions C11_assign_fault_restores_handle.

(* the former failing input of known finding 4 as a regression witness: EIO at the parking of the state point
   file of {a: 1} -> {a: 5}, then sp["q"] = 9 through the same handle: memory = disk = {a: 1} after the error;
   the follow-up produces {a: 1, q: 9}, and {a: 5, q: 9} does not exist *)
Theorem C11_rekey_first_rename_repaired_witness :
  (let '(f, out) := run_fault (single 1 EIO) 0 (op1_h cw_repr true (KRekey cw_a cw_id cw_nsp) (fun h r => Ret (h, r))) cw_f0 in
   (exists h x, out = inl (h, inr x) /\ hs_id h = cw_id /\ hs_sp h = Some cw_sp)
   /\ sp_value f cw_a cw_id = Some cw_sp
   /\ forallb (fun e => node_same (get cw_f0 (fst e)) (get f (fst e))) (cw_f0 ++ f) = true)
  /\
  (let '(f2, out2) := run_fault (single 1 EIO) 0 (follow_prog cw_repr true (KRekey cw_a cw_id cw_nsp) cw_fo) cw_f0 in
   (exists x, out2 = inl (inr x, inl tt))
   /\ validates cw_repr f2 cw_a (calc_id cw_repr cw_intended) = true
   /\ exists_ f2 (cw_a ++ [calc_id cw_repr cw_forged]) = false).
Proof. exact rekey_first_rename_repaired_witness. Qed.
Print Assumptions C11_rekey_first_rename_repaired_witness.

(* FAILING STAT CALLS.  os.path.isfile / isdir / exists / lexists read ANY error of the stat as "False": a failing
   stat silently changes a decision.  The model carries every stat of the lifecycle operations (Job.init,
   the re-key, move, clone incl. the three swallowed stats of shutil.copy2 and copystat's stat of the source
   directory, rmtree's lstat, clear's lstat per entry), so the fault_safe theorems above quantify over them too.
   The two places where a swallowed error broke the property (known findings 5 and 6) are repaired in /repo
   (187ceef, ed42bbc); their failing inputs are kept as regression witnesses: *)

(* FULL (the general form of the witness below): in Job.clear() an error other than ENOENT at the lstat of a
   direct entry of the job directory — the k-th call of the run, whichever entry, whatever tree, whatever was
   removed before — is raised to the caller.  (rmtree's own lstat of the entry has the same signature and
   propagates as well.)  Before 187ceef the error was read as "neither file nor directory" and the entry skipped. *)
Theorem C11_clear_entry_stat_fault_propagates : forall frepr atomic ws i f0 k e q,
  e <> ENOENT ->
  nth_error (map fst (trace (op_prog frepr atomic (KClear ws i)) f0)) k = Some (CStat q) ->
  parent q = ws ++ [i] ->
  snd (run_fault (single k e) 0 (op_prog frepr atomic (KClear ws i)) f0) = inr (POs e).
Proof. exact clear_entry_stat_fault_propagates. Qed.
Print Assumptions C11_clear_entry_stat_fault_propagates.

(* Job.clear(): the lstat of a data file fails once: the error propagates, the file is still there (before
   187ceef: isfile -> False, isdir -> False, the file was skipped and clear() returned normally) *)
Theorem C11_clear_stat_fault_repaired_witness :
  post_ok cw_repr clr_op cw_f0 (fst (run (op_prog cw_repr true clr_op) cw_f0)) = true /\
  match find_occ clr_sig 0 (map fst (trace (op_prog cw_repr true clr_op) cw_f0)) 0 with
  | None => False
  | Some k =>
      let '(g, out) := run_fault (single k EIO) 0 (op_prog cw_repr true clr_op) cw_f0 in
      out = inr (POs EIO) /\ get g (cw_a ++ [cw_id; cw_data]) = Some (File cw_bytes)
  end.
Proof. exact clear_stat_fault_repaired_witness. Qed.
Print Assumptions C11_clear_stat_fault_repaired_witness.

(* clone onto an existing destination, the lstat of the destination fails AND the mkdir of the destination
   would fail: EIO propagates from the lstat, every entry equals the pre-state (instance of
   C11_clone_existing_untouched; before ed42bbc the clean-up deleted the destination) *)
Theorem C11_clone_lstat_double_fault_repaired_witness :
  match find_occ cx_stat 0 (map fst (trace (op_prog cw_repr true cw_op) cx_f0)) 0,
        find_occ cx_mkdir 0 (map fst (trace (op_prog cw_repr true cw_op) cx_f0)) 0 with
  | Some k1, Some k2 =>
      let both := fun i => if Nat.eqb i k1 then Some EIO else if Nat.eqb i k2 then Some EIO else None in
      let '(g, out) := run_fault both 0 (op_prog cw_repr true cw_op) cx_f0 in
      out = inr (POs EIO) /\ forallb (fun e => node_same (get cx_f0 (fst e)) (get g (fst e))) (cx_f0 ++ g) = true
  | _, _ => False
  end.
Proof. exact clone_lstat_double_fault_repaired_witness. Qed.
Print Assumptions C11_clone_lstat_double_fault_repaired_witness.

(* licence for the correspondence step: when a crash_safe theorem covers the case's operation and the
   implementation's observations agree with the model (no mismatch), every crash state the implementation
   was seen in is observationally equal to a model crash state that satisfies CInv *)
Theorem C11_model_holds : forall c wss,
  (forall g, crash_states (prog_of c) (k_pre c) g -> CInv (frepr_of c) (k_op c) wss (k_pre c) g) ->
  mismatch_C11 c = false ->
  forall out sts, k_probe c = PCrash out sts ->
  Forall2 (fun m ob => fobs_match (frepr_of c) (k_wss c) m ob = true /\ CInv (frepr_of c) (k_op c) wss (k_pre c) m)
          (model_crash_states c) sts.
Proof. exact model_holds_crash. Qed.
Print Assumptions C11_model_holds.

(* non-vacuity: the witness workspace of the refutation is a valid workspace (so the crash_safe theorems
   apply to it), with a listed job *)
Example C11_example :
  NoDup (map fst cw_f0) /\ get cw_f0 cw_a = Some Dir /\ job_dirs cw_f0 cw_a = [cw_id] /\
  validates cw_repr cw_f0 cw_a cw_id = true /\
  cinv_b cw_repr cw_op cw_f0 cw_f0 (observe cw_repr cw_f0 [cw_a; cw_b]) = true.
Proof.
  split; [|vm_compute; repeat split; reflexivity].
  repeat constructor; simpl; intuition discriminate.
Qed.
