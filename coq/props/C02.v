(* C02 — initialised jobs persist and reopen exactly; opening is lazy. *)
From SV Require Import Base Json MD5 Canon FS Ws CorrC02 C02Proofs.

Theorem C02_open_by_statepoint_no_fs_effect : forall frepr w s sp,
  w_fs (fst (open_sp frepr w s sp)) = w_fs w /\ w_tr (fst (open_sp frepr w s sp)) = w_tr w.
Proof. exact open_sp_no_fs_effect. Qed.
Print Assumptions C02_open_by_statepoint_no_fs_effect.
