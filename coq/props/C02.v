(* C02 — initialised jobs persist and reopen exactly; opening is lazy; id / prefix resolution.
   This file only states theorems; proofs live in SV.C02Proofs / SV.WsInit / SV.FS.
   The model (SV.Ws) is parameterised by frepr, the oracle for Python's float.__repr__. *)
From SV Require Import Base Json MD5 Canon FS Ws WsLemmas WsInit CorrC02 C02Proofs.

(* ---- opening is lazy *)
(* open_job(statepoint) has no file-system component in its result other than the one it was given *)
Theorem C02_open_by_statepoint_no_fs_effect : forall frepr w s sp,
  w_fs (fst (open_sp frepr w s sp)) = w_fs w /\ w_tr (fst (open_sp frepr w s sp)) = w_tr w.
Proof. exact open_sp_no_fs_effect. Qed.
Print Assumptions C02_open_by_statepoint_no_fs_effect.

(* every read-only operation (open_job by state point / id / prefix, statepoint(), cached_statepoint,
   id, path, iteration, len, in) leaves the tree and the trace of mutating steps unchanged *)
Theorem C02_open_job_no_fs_effect : forall frepr w q o,
  readonly o = true ->
  let '(w1, q1, out) := step frepr w q o in
  w_fs w1 = w_fs w /\ w_tr w1 = w_tr w /\ q1 = q.
Proof. exact readonly_no_fs_effect. Qed.
Print Assumptions C02_open_job_no_fs_effect.

(* the handle's value is a copy: it reads back sp (statepoint() and cached_statepoint) and its id is
   the hash of sp; Gallina values cannot alias, so later changes of the argument are invisible *)
Theorem C02_open_job_no_alias : forall frepr w s sp,
  let '(w1, h) := open_sp frepr w s sp in
  snd (sp_read frepr w1 h) = inl sp /\ snd (cached_sp frepr w1 h) = inl sp /\ h_id (getH w1 h) = calc_id frepr sp.
Proof. exact open_sp_reads_back. Qed.
Print Assumptions C02_open_job_no_alias.

(* ---- init *)
(* init_post: on a workspace with nothing at the job's place, init succeeds, creates the directory named
   by the id, the file holds exactly (dumps sp, parses to sp), the job validates, everything else is unchanged *)
Theorem C02_init_post : forall frepr w h sp,
  (h < length (w_hs w))%nat ->
  h_cell (getH w h) = None -> h_cached (getH w h) = Some sp -> h_id (getH w h) = calc_id frepr sp ->
  is_null sp = false ->
  let wsd := wsp (getS w (h_s (getH w h))) in
  let jd := wsd ++ [h_id (getH w h)] in
  (forall k, (k <= length wsd)%nat -> get (w_fs w) (firstn k wsd) = Some Dir) ->
  (forall q, under jd q = true -> get (w_fs w) q = None) ->
  exists w', init frepr false false w h = (w', inl tt) /\
    get (w_fs w') jd = Some Dir /\
    get (w_fs w') (jd ++ [SPF]) = Some (File (sp_content frepr sp)) /\
    valid_job frepr (w_fs w') wsd (h_id (getH w h)) sp /\
    (forall q, q <> jd -> q <> jd ++ [SPF] -> get (w_fs w') q = get (w_fs w) q).
Proof. exact init_fresh_post. Qed.
Print Assumptions C02_init_post.

(* whenever init returns normally (any prior state, with or without force), the state point file
   exists, parses, and hashes to the handle's id *)
Theorem C02_init_ok_validates : forall frepr susp force w h w',
  (h < length (w_hs w))%nat -> init frepr susp force w h = (w', inl tt) ->
  (exists v, load_file frepr w' (getH w' h) = inl v) /\ (exists ci, h_cell (getH w' h) = Some ci)
  /\ h_id (getH w' h) = h_id (getH w h).
Proof. exact init_ok_valid. Qed.
Print Assumptions C02_init_ok_validates.

(* init is idempotent: after a successful init, another one (even with force) succeeds without a
   single file-system step *)
Theorem C02_init_idempotent : forall frepr susp force susp' force' w h w',
  (h < length (w_hs w))%nat -> init frepr susp force w h = (w', inl tt) ->
  let '(w'', r) := init frepr susp' force' w' h in
  r = inl tt /\ w_fs w'' = w_fs w' /\ w_tr w'' = w_tr w'.
Proof. exact init_twice. Qed.
Print Assumptions C02_init_idempotent.

(* never rewrites a valid file: if the file loads and validates, init performs no mutating step *)
Theorem C02_init_valid_no_write : forall frepr susp force w h,
  (let '(w1, r) := sp_access frepr w h in
   exists ci v, r = inl ci /\ load_file frepr w1 (getH w1 h) = inl v) ->
  let '(w', r') := init frepr susp force w h in
  r' = inl tt /\ w_fs w' = w_fs w /\ w_tr w' = w_tr w.
Proof. exact init_valid_no_write. Qed.
Print Assumptions C02_init_valid_no_write.

(* ---- a fresh session finds the job *)
(* with an empty cache, anything that resolves to the id of a valid job (full id or unique prefix)
   opens a handle with that id whose statepoint() is exactly what the file holds; nothing is written *)
Theorem C02_fresh_session_finds : forall frepr w si x i sp,
  alookup x (s_cache (getS w si)) = None -> alookup i (s_cache (getS w si)) = None ->
  resolve (w_fs w) (wsp (getS w si)) x = inl i ->
  valid_job frepr (w_fs w) (wsp (getS w si)) i sp ->
  exists w1 h, open_id w si x = (w1, inl h) /\ h_id (getH w1 h) = i /\
               snd (sp_read frepr w1 h) = inl sp /\ w_fs w1 = w_fs w.
Proof. exact open_id_finds. Qed.
Print Assumptions C02_fresh_session_finds.

(* ---- id resolution, for every prefix length and an arbitrary duplicate-free listing *)
Theorem C02_resolve_unique : forall ids present i m,
  NoDup ids -> (length i < 32)%nat -> In m ids -> str_prefix i m = true ->
  (forall m', In m' ids -> str_prefix i m' = true -> m' = m) ->
  resolve_ids ids present i = inl m.
Proof. exact resolve_unique. Qed.
Print Assumptions C02_resolve_unique.

Theorem C02_resolve_ambiguous : forall ids present i a b,
  (length i < 32)%nat -> In a ids -> In b ids -> a <> b ->
  str_prefix i a = true -> str_prefix i b = true ->
  resolve_ids ids present i = inr (FExn ELookupError).
Proof. exact resolve_ambiguous. Qed.
Print Assumptions C02_resolve_ambiguous.

Theorem C02_resolve_unknown : forall ids present i,
  (length i < 32)%nat -> (forall m, In m ids -> str_prefix i m = false) ->
  resolve_ids ids present i = inr (FExn EKeyError).
Proof. exact resolve_unknown. Qed.
Print Assumptions C02_resolve_unknown.

Theorem C02_resolve_full_id : forall ids present i,
  (32 <= length i)%nat ->
  resolve_ids ids present i = if present i then inl i else inr (FExn EKeyError).
Proof. exact resolve_full. Qed.
Print Assumptions C02_resolve_full_id.

(* ---- licence for the correspondence step (partial).
   FULL STATEMENT WANTED: forall c, mismatch_C02 c = false -> holds_C02 c = true.
   PROVED: the two clauses of the oracle that are not re-checked from the implementation's own trees:
   (a) the oracle's expectation for open_job(id=...) IS the model's resolution on the same listing, so
       an implementation that agrees with the model on a lookup satisfies the oracle on it;
   (b) after every read-only operation the model's own OQuiet observation is "nothing touched", so an
       implementation that agrees with the model satisfies the oracle's laziness clause.
   MISSING: the init clause for arbitrary histories (proved above for one init from a clean place,
   C02_init_post, and for re-init, C02_init_idempotent), lifted over op sequences. *)
Theorem C02_model_holds_partial :
  (forall ids i,
     expect_open ids i =
     match resolve_ids ids (fun x => str_mem x ids) i with inl m => VStr m | inr e => VExn (exn_of e) end)
  /\
  (forall frepr w o, readonly o = true ->
     let '(w1, q1, _) := step frepr w (length (w_tr w)) o in
     snd (step frepr w1 q1 OQuiet) = VBool true).
Proof. split; [exact resolve_expect|exact readonly_quiet]. Qed.
Print Assumptions C02_model_holds_partial.

(* ---- non-vacuity *)
Definition ex_fr (f : fl) : str := [].
Definition ex_sp : json := JObj [([97%N], JInt 1); ([98%N], JObj [([99%N], JArr [JBool true; JNull])])].
Definition ex_A : path := [[65%N]].

(* the hypotheses of C02_init_post hold in the world reached by Project(A); open_job(sp), and the model
   run shows: open is quiet, init writes, re-init is quiet, a fresh session finds the job by id and prefix *)
Example C02_example_run :
  let i := calc_id ex_fr ex_sp in
  run ex_fr w0 0 [ONewSession ex_A; OQuiet; OOpenSp 0 ex_sp; OQuiet; OInit 0 false; OQuiet; OInit 0 false; OQuiet;
                  ONewSession ex_A; OOpenId 1 (firstn 5 i); OSp 1; OOpenId 1 [122%N]; OIds 1]
  = [VUnit; VBool false; VStr i; VBool true; VUnit; VBool false; VUnit; VBool true;
     VUnit; VStr i; VJson ex_sp; VExn EKeyError; VStrs [i]].
Proof. vm_compute. reflexivity. Qed.

Example C02_example_init_hyps :
  let w := fst (open_sp ex_fr (fst (new_session w0 ex_A)) 0 ex_sp) in
  (0 < length (w_hs w))%nat /\ h_cell (getH w 0) = None /\ h_cached (getH w 0) = Some ex_sp /\
  h_id (getH w 0) = calc_id ex_fr ex_sp /\
  get (w_fs w) (wsp (getS w 0)) = Some Dir /\ get (w_fs w) (wsp (getS w 0) ++ [h_id (getH w 0)]) = None.
Proof. vm_compute. repeat split; auto. Qed.

(* two ids sharing the prefix "ab": unique at length 3, ambiguous at length 2, unknown for "b" *)
Example C02_example_resolve :
  let a := [97;98;99]%N ++ repeat 48%N 29 in
  let b := [97;98;100]%N ++ repeat 48%N 29 in
  NoDup [a; b] /\
  resolve_ids [a; b] (fun _ => false) [97;98;99]%N = inl a /\
  resolve_ids [a; b] (fun _ => false) [97;98]%N = inr (FExn ELookupError) /\
  resolve_ids [a; b] (fun _ => false) [98]%N = inr (FExn EKeyError).
Proof.
  simpl. repeat split; try reflexivity.
  constructor; [intros [H|[]]; discriminate|]. constructor; [intros []|constructor].
Qed.

(* ---- handle / project provenance and working directory (added with seeded changes C02-7, C02-8).  MODELLING STEP,
   see CorrC02.v: a project is its canonical root.  The model's run of a harness program does not depend on how a
   Project object was obtained, nor on any chdir between the operations; the names of the directories are not part of
   the model's language at all (the harness maps the root A to a directory whose name - and whose parent's name - is drawn
   from a set with glob / shell metacharacters, spaces and non-ASCII characters).  That the implementation behaves the
   same is what the correspondence checks on every generated provenance. *)
Theorem C02_provenance_irrelevant : forall frepr a b r pv pv',
  run_items frepr (a ++ ISession r pv :: b) = run_items frepr (a ++ ISession r pv' :: b).
Proof. exact provenance_irrelevant. Qed.
Print Assumptions C02_provenance_irrelevant.

Theorem C02_cwd_irrelevant : forall frepr a b d,
  run_items frepr (a ++ IChdir d :: b) = run_items frepr (a ++ b).
Proof. exact cwd_irrelevant. Qed.
Print Assumptions C02_cwd_irrelevant.
